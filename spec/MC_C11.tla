------------------------------- MODULE MC_C11 -------------------------------
(* Bounded model for C11: every RNG outcome of every sampling mode on small   *)
(* sources (the dynamic switch constant is lowered to 2 so that both of its   *)
(* branches are reachable on small data).                                     *)
EXTENDS Bootstrap, TLC

CONSTANTS Sources, Cap
SrcQuick == {Obj(<<0, 1>>, <<0>>, 0, 0, "pos", "pos"),
             Obj(<<1>>, <<0, 2>>, 1, 0, "neg", "pos"),
             Obj(<<0, 2>>, <<1, 1>>, 0, 1, "pos", "neg"),
             Obj(<<1>>, <<2>>, 2, 1, "pos", "pos"),
             Obj(<<0, 1, 2>>, <<1, 2>>, 0, 0, "neg", "neg")}
SrcThorough == SrcQuick \cup {Obj(<<0, 1, 1>>, <<0, 2, 2>>, 1, 1, "pos", "pos"),
                              Obj(<<2>>, <<0, 1, 2>>, 3, 0, "pos", "neg")}
Configs == {[method |-> m, strat |-> s, ratio |-> <<1, 2>>] :
              m \in {"replacement", "single_pass", "dynamic", "proportion"}, s \in {"none", "by_label"}}

VARIABLES src, cfg, draws, sample
vars == <<src, cfg, draws, sample>>
None == [pos |-> <<>>, neg |-> <<>>, ep |-> -1, en |-> -1, sc |-> "pos", ec |-> "pos"]

Init == src \in Sources /\ cfg \in Configs /\ draws = <<>> /\ sample = None
Draw == /\ sample = None /\ NextCall(src, cfg, draws).fn # "none"
        /\ \E out \in Support(NextCall(src, cfg, draws), Cap) : draws' = Append(draws, out)
        /\ UNCHANGED <<src, cfg, sample>>
Build == /\ sample = None /\ NextCall(src, cfg, draws).fn = "none"
         /\ sample' = SampleFrom(src, cfg, draws) /\ UNCHANGED <<src, cfg, draws>>
Next == Draw \/ Build
Spec == Init /\ [][Next]_vars

Done == sample # None
M == Resolve(src, cfg)
InvWellFormed == Done => WellFormed(src, cfg, sample)
InvTotal == (Done /\ M = "replacement") => TotalPreserved(src, sample)
InvStrata == (Done /\ M = "replacement" /\ ByLabel(cfg)) => StrataPreserved(src, sample)
InvEasyStrata == (Done /\ M = "single_pass" /\ ByLabel(cfg)) => (sample.ep = src.ep /\ sample.en = src.en)
InvProportion == (Done /\ M = "proportion") => ProportionOK(src, cfg, sample)
(* the draws of a finished run are a complete record: no call is left            *)
InvNoCallLeft == Done => NextCall(src, cfg, draws).fn = "none"
=============================================================================
