------------------------------- MODULE MC_C08 -------------------------------
(* Bounded model for the symmetry relations (C08): Scores.swap(), the       *)
(* environment action "negate every score and flip score_class", and (as a  *)
(* relation between two concretisations of one abstract object, checked on  *)
(* recorded traces) increasing affine maps.  The relations are ACTION       *)
(* properties: they relate the object before and after the transition.      *)
EXTENDS Threshold, Json, IOUtils, SequencesExt

CONSTANTS K, MaxP, MaxN, EasyPairs, Qs

EasyQuick    == {<<0, 0>>, <<2, 1>>}
EasyThorough == {<<0, 0>>, <<2, 1>>, <<0, 3>>, <<1, 0>>}
QsQuick      == {1, 2}
QsThorough   == {1, 2, 3}

V  == 0..(K - 1)
T2 == (-(2 * K) - 1)..(2 * K + 1)      \* covers the negated objects as well

Objects ==
  {o \in [pos : AscSeqs(V, MaxP), neg : AscSeqs(V, MaxN), ep : {e[1] : e \in EasyPairs},
          en : {e[2] : e \in EasyPairs}, sc : Labels, ec : Labels] :
     /\ <<o.ep, o.en>> \in EasyPairs
     /\ Len(o.pos) + Len(o.neg) > 0}

VARIABLES obj, steps
vars == <<obj, steps>>

Init == obj \in Objects /\ steps = <<>>
Swap   == Len(steps) < 2 /\ obj' = SwapObj(obj)   /\ steps' = Append(steps, "swap")
Negate == Len(steps) < 2 /\ obj' = NegateObj(obj) /\ steps' = Append(steps, "negate")
Next == Swap \/ Negate
Spec == Init /\ [][Next]_vars

TargetsOf(o, m) ==
  LET N == MetricPop(o, m)
  IN UNION {{R(k, q * N) : k \in (-q)..(q * N + q)} : q \in Qs}

NegThr(t) == CASE t[1] = "below" -> Above [] t[1] = "above" -> Below
               [] OTHER -> <<"val", -t[2], t[3]>>

(* swap(): matrix with the two diagonals exchanged, at every threshold       *)
SwapRelation ==
  [][(steps' = Append(steps, "swap")) =>
       \A t \in T2 : LET c == CountCM(obj, t)  s == CountCM(obj', t) IN
                       s = <<TN(c), FP(c), FN(c), TP(c)>>]_vars
(* hence FPR/TPR/TOPR of the original = FNR/TNR/TONR of the swapped object   *)
SwapRates ==
  [][(steps' = Append(steps, "swap")) =>
       \A t \in T2 : \A m \in Metrics :
           MetricRate(m, CountCM(obj, t)) = MetricRate(SwapMetric(m), CountCM(obj', t))]_vars
(* swap twice is the identity                                                *)
SwapInvolution ==
  [][(steps' = Append(steps, "swap")) => SwapObj(obj') = obj]_vars

(* negation + flipped score_class: same matrix at the negated threshold      *)
NegateRelation ==
  [][(steps' = Append(steps, "negate")) =>
       \A t \in T2 : CountCM(obj', -t) = CountCM(obj, t)]_vars
(* ... and every linear threshold is negated                                 *)
NegateThresholds ==
  [][(steps' = Append(steps, "negate")) =>
       \A m \in Metrics : Len(RelScores(obj, m)) > 0 =>
          \A r \in TargetsOf(obj, m) :
             ThrEq(ThresholdCoded(obj', m, r, "linear"),
                   NegThr(ThresholdCoded(obj, m, r, "linear")))]_vars

EmitCases ==
  TLCGet("stats").distinct >= 0 /\
  JsonSerialize(IOEnv.CASES_FILE, [k |-> K, qs |-> SetToSeq(Qs), cases |-> SetToSeq(Objects)])
=============================================================================
