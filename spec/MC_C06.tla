------------------------------- MODULE MC_C06 -------------------------------
(* Bounded model for C06: on every tie-free object the property is           *)
(* satisfiable and the as-coded EER is admissible; for every object (ties    *)
(* included) the only way to a reported EER of 0 - the perfect-separation    *)
(* shortcut - comes with an error-free threshold.                            *)
EXTENDS EER, Json, IOUtils

CONSTANTS K, MaxP, MaxN, EasyPairs
EasyQuick    == {<<0, 0>>, <<2, 0>>, <<0, 3>>, <<2, 3>>, <<1, 1>>}
EasyThorough == EasyQuick \cup {<<5, 5>>, <<1, 4>>, <<3, 1>>, <<2, 2>>}
V == 0..(K - 1)
Objects ==
  {o \in [pos : AscSeqs(V, MaxP), neg : AscSeqs(V, MaxN), ep : {e[1] : e \in EasyPairs},
          en : {e[2] : e \in EasyPairs}, sc : Labels, ec : Labels] :
     /\ <<o.ep, o.en>> \in EasyPairs /\ Len(o.pos) > 0 /\ Len(o.neg) > 0}

VARIABLES obj, stage
vars == <<obj, stage>>
Null == [pos |-> <<0>>, neg |-> <<1>>, ep |-> 0, en |-> 0, sc |-> "neg", ec |-> "pos"]
Init == obj = Null /\ stage = "none"
PickPos == /\ stage = "none" /\ stage' = "pos"
           /\ \E p \in AscSeqs(V, MaxP) \ {<<>>} : obj' = [obj EXCEPT !.pos = p]
PickRest == /\ stage = "pos" /\ stage' = "picked"
            /\ \E o \in Objects : o.pos = obj.pos /\ obj' = o
Next == PickPos \/ PickRest
Spec == Init /\ [][Next]_vars
Ready == stage = "picked"

InvSatisfiable == (Ready /\ TieFree(obj)) => Satisfiable(obj)
InvCodedAdmissible == (Ready /\ TieFree(obj)) =>
  LET r == EERCoded(obj)
      c == CountCM(obj, QPos2(r[1]))
  IN Admissible(obj, c, r[2]) /\ ZeroOK(c, r[2])
InvZeroOnlyWhenSeparated == Ready =>
  (Separated(obj) => LET c == CountCM(obj, QPos2(SepThreshold(obj))) IN FP(c) = 0 /\ FN(c) = 0)

EmitCases ==
  TLCGet("stats").distinct >= 0 /\
  JsonSerialize(IOEnv.CASES_FILE, [k |-> K, cases |-> SetToSeq(Objects)])
=============================================================================
