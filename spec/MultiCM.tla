------------------------------ MODULE MultiCM ------------------------------
(* Multiclass confusion matrices (cm.py).  Classes are integers; a sample is *)
(* <<label, prediction, weight>>; a matrix over a class sequence cls is a    *)
(* sequence of rows, M[i][j] = total weight of samples with label cls[i] and *)
(* prediction cls[j].                                                        *)
EXTENDS Integers, Sequences, FiniteSets, BinaryCM

RECURSIVE SumSeq(_)
SumSeq(s) == IF s = <<>> THEN 0 ELSE Head(s) + SumSeq(Tail(s))

WeightOf(samples, a, b) ==
  SumSeq([k \in DOMAIN samples |->
            IF samples[k][1] = a /\ samples[k][2] = b THEN samples[k][3] ELSE 0])

(* ConfusionMatrix(labels, predictions, weights, classes) (cm.py:212-241)    *)
Build(samples, cls) ==
  [i \in DOMAIN cls |-> [j \in DOMAIN cls |-> WeightOf(samples, cls[i], cls[j])]]

(* classes=None: every value that appears as label or prediction, sorted     *)
Present(samples) == {samples[k][1] : k \in DOMAIN samples} \cup {samples[k][2] : k \in DOMAIN samples}
RECURSIVE SortedSeqOf(_)
SortedSeqOf(S) == IF S = {} THEN <<>>
                  ELSE LET x == CHOOSE y \in S : \A z \in S : y <= z
                       IN <<x>> \o SortedSeqOf(S \ {x})
AutoClasses(samples) == SortedSeqOf(Present(samples))

IndexOf(cls, c) == CHOOSE i \in DOMAIN cls : cls[i] = c
(* the same matrix in another class order (dict / DataFrame reordering)      *)
Reorder(M, cls, newcls) ==
  [i \in DOMAIN newcls |-> [j \in DOMAIN newcls |->
      M[IndexOf(cls, newcls[i])][IndexOf(cls, newcls[j])]]]

RowSum(M, i) == SumSeq(M[i])
ColSum(M, j) == SumSeq([i \in DOMAIN M |-> M[i][j]])
Total(M) == SumSeq([i \in DOMAIN M |-> RowSum(M, i)])
Trace(M) == SumSeq([i \in DOMAIN M |-> M[i][i]])

(* one_vs_all (cm.py:279-308): class j against the rest, <<TP, FN, FP, TN>>  *)
OneVsAll(M) ==
  [j \in DOMAIN M |->
     <<M[j][j], RowSum(M, j) - M[j][j], ColSum(M, j) - M[j][j],
       Total(M) - RowSum(M, j) - ColSum(M, j) + M[j][j]>>]

ClassMetric(name, M) == [j \in DOMAIN M |-> RateOf(name, OneVsAll(M)[j])]
Accuracy(M) == Div(Trace(M), Total(M))
=============================================================================
