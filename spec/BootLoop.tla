------------------------------ MODULE BootLoop ------------------------------
(* The replicate loop of Scores.bootstrap_metric / bootstrap_ci                *)
(* (scores.py:1066-1133) as a program-counter machine:                         *)
(*                                                                             *)
(*   idle --Start--> probe --Probe--> sampling --Sample(j)--> evaluating       *)
(*        --Eval(j)--> sampling ... --(j = n)--> [estimate --Estimate-->]      *)
(*        assembling --Assemble--> done                                        *)
(*                                                                             *)
(* The sampler is an arbitrary (here: nondeterministic) source of sample       *)
(* objects; the metric is a function of one object.  What must hold: exactly   *)
(* nb_samples rows, row j is the metric of the j-th sample the sampler         *)
(* produced, the interval is the documented formula applied to those rows with *)
(* the metric of the ORIGINAL object as point estimate.                        *)
EXTENDS ScoresObj, BootCI

CONSTANTS Candidates,   \* objects the sampler may return
          MaxN,         \* nb_samples bound
          T2s           \* thresholds of the metric (doubled coordinates)

VARIABLES pc, call, src, thr, n, j, produced, rows, estimate, result, runs
lvars == <<pc, call, src, thr, n, j, produced, rows, estimate, result, runs>>

(* the metric of the model: number of false positives at threshold thr (an     *)
(* integer, so that the interval formulas of BootCI apply)                     *)
MetricOf(o, t2) == FP(CountCM(o, t2))

LInit == /\ pc = "idle" /\ call = "none" /\ src \in Candidates /\ thr \in T2s /\ n = 0 /\ j = 0
         /\ produced = <<>> /\ rows = <<>> /\ estimate = NaNTok /\ result = <<>> /\ runs = 1

Start(c, k) == /\ pc = "idle" /\ pc' = "probe" /\ call' = c /\ n' = k
               /\ UNCHANGED <<src, thr, j, produced, rows, estimate, result, runs>>
(* metric(self) once, to learn the shape/dtype of a row                        *)
Probe == /\ pc = "probe" /\ pc' = "sampling"
         /\ UNCHANGED <<call, src, thr, n, j, produced, rows, estimate, result, runs>>
Sample(s) == /\ pc = "sampling" /\ j < n /\ pc' = "evaluating"
             /\ produced' = Append(produced, s)
             /\ UNCHANGED <<call, src, thr, n, j, rows, estimate, result, runs>>
Eval == /\ pc = "evaluating" /\ pc' = "sampling" /\ j' = j + 1
        /\ rows' = Append(rows, MetricOf(produced[j + 1], thr))
        /\ UNCHANGED <<call, src, thr, n, produced, estimate, result, runs>>
LoopDone == /\ pc = "sampling" /\ j = n
            /\ pc' = IF call = "ci" THEN "estimate" ELSE "assembling"
            /\ UNCHANGED <<call, src, thr, n, j, produced, rows, estimate, result, runs>>
Estimate == /\ pc = "estimate" /\ pc' = "assembling" /\ estimate' = MetricOf(src, thr)
            /\ UNCHANGED <<call, src, thr, n, j, produced, rows, result, runs>>
Assemble(method, a) ==
  /\ pc = "assembling" /\ pc' = "done"
  /\ result' = IF call = "metric" THEN rows
               ELSE IF method = "quantile"
                    THEN LET q == QuantileCI(rows, a) IN
                         <<(q[1][1] * FS) \div q[1][2], (q[2][1] * FS) \div q[2][2]>>
                    ELSE CorrectedCI6(rows, estimate, a, method)
  /\ UNCHANGED <<call, src, thr, n, j, produced, rows, estimate, runs>>

(* a history: another call on the SAME object with the same metric but another *)
(* threshold keyword argument                                                  *)
Again(t) == /\ pc = "done" /\ runs < 2 /\ t # thr /\ runs' = runs + 1
            /\ pc' = "idle" /\ thr' = t /\ n' = 0 /\ j' = 0 /\ call' = "none"
            /\ produced' = <<>> /\ rows' = <<>> /\ estimate' = NaNTok /\ result' = <<>>
            /\ UNCHANGED src

LNext == \/ \E c \in {"metric", "ci"}, k \in 1..MaxN : Start(c, k)
         \/ (\E t \in T2s : Again(t))
         \/ Probe \/ (\E s \in Candidates : Sample(s)) \/ Eval \/ LoopDone \/ Estimate
         \/ \E m \in {"quantile", "bc", "bca"}, a \in {50, 100, 500} : Assemble(m, a)
LSpec == LInit /\ [][LNext]_lvars

(* ---- what must hold ---------------------------------------------------------*)
InvRowsFollowSamples ==
  /\ Len(rows) = j /\ Len(produced) \in {j, j + 1} /\ j <= n
  /\ \A i \in 1..Len(rows) : rows[i] = MetricOf(produced[i], thr)
InvDone == pc = "done" =>
  /\ Len(rows) = n /\ Len(produced) = n
  /\ call = "metric" => result = rows
  /\ call = "ci" => estimate = MetricOf(src, thr)
(* identity sampler (every sample is the source): the interval collapses      *)
InvIdentityCollapses ==
  (pc = "done" /\ call = "ci" /\ \A i \in DOMAIN produced : produced[i] = src) =>
     result = <<estimate * FS, estimate * FS>>
=============================================================================
