-------------------------------- MODULE ROC --------------------------------
(* ROC curves (roc_curve.py): selection of the support thresholds as coded    *)
(* (:226-311), the rates evaluated there (:134-141) and the rule-of-three /   *)
(* rectangle-aggregation steps of roc_with_ci (:329-387).                     *)
(*                                                                            *)
(* A support threshold is <<n, d, k>>: the rational n/d in abstract score     *)
(* coordinates moved by k ulp (k = -1 / +1 for the sentinels one ulp outside   *)
(* the scores, 0 otherwise).  They are ordered lexicographically by (n/d, k).  *)
EXTENDS Threshold, SequencesExt, Fixed

T3(thr, S) == CASE thr[1] = "below" -> <<S[1], 1, -1>>
                [] thr[1] = "above" -> <<S[Len(S)], 1, 1>>
                [] OTHER -> <<thr[2], thr[3], 0>>
T3Less(a, b) == RLt(<<a[1], a[2]>>, <<b[1], b[2]>>) \/ (REq(<<a[1], a[2]>>, <<b[1], b[2]>>) /\ a[3] < b[3])
T3Eq(a, b) == REq(<<a[1], a[2]>>, <<b[1], b[2]>>) /\ a[3] = b[3]
(* doubled-coordinate position of a support threshold (for CountCM)            *)
T3Pos2(t) == LET q == <<t[1], t[2]>> IN
             IF q[1] % q[2] = 0 THEN 2 * (q[1] \div q[2]) + t[3] ELSE 2 * RFloor(q) + 1

ThrAt(o, m, r) == T3(ThresholdCoded(o, m, r, "linear"), RelScores(o, m))
(* np.linspace(0, 1, k, endpoint=True)                                         *)
Linspace01(k) == IF k = 0 THEN <<>> ELSE IF k = 1 THEN <<RZero>> ELSE [i \in 1..k |-> R(i - 1, k - 1)]

DecreasingAxes == {"fpr", "tpr", "far", "tar"}
XAxes == {"fnr", "fpr", "tnr", "tpr", "far", "frr", "tar", "trr"}
CanonAxis(x) == CASE x = "far" -> "fpr" [] x = "frr" -> "fnr" [] x = "tar" -> "tpr" [] x = "trr" -> "tnr"
                  [] OTHER -> x

(* _find_support_thresholds without extra points (roc()):                      *)
(*   fnrs, fprs : sequences of rational targets (<<>> = not supplied ... the    *)
(*   code distinguishes None from empty only through the "nothing supplied"     *)
(*   test on the resulting thresholds), thrs : sequence of T3, nb: points or -1 *)
Support(o, fnrs, fprs, thrs, nb, xaxis) ==
  LET given == thrs \o [i \in DOMAIN fnrs |-> ThrAt(o, "fnr", fnrs[i])]
                    \o [i \in DOMAIN fprs |-> ThrAt(o, "fpr", fprs[i])]
      base == IF Len(given) > 0 THEN given
              ELSE IF nb = -1
                   THEN [i \in DOMAIN o.pos |-> <<o.pos[i], 1, 0>>] \o [i \in DOMAIN o.neg |-> <<o.neg[i], 1, 0>>]
                   ELSE LET a == Linspace01(nb \div 2)  b == Linspace01(nb - nb \div 2) IN
                        [i \in DOMAIN a |-> ThrAt(o, "fnr", a[i])] \o [i \in DOMAIN b |-> ThrAt(o, "fpr", b[i])]
      asc == SortSeq(base, T3Less)
      r1 == IF xaxis \in DecreasingAxes THEN Reverse(asc) ELSE asc
  IN IF o.sc = "neg" THEN Reverse(r1) ELSE r1

RatesAt(o, t) == LET c == CountCM(o, T3Pos2(t)) IN [fnr |-> R(FN(c), NPos(o)), fpr |-> R(FP(c), NNeg(o))]
AxisOf(rates, x) == CASE x = "fnr" -> rates.fnr [] x = "fpr" -> rates.fpr
                      [] x = "tpr" -> RSub(ROne, rates.fnr) [] x = "tnr" -> RSub(ROne, rates.fpr)

(* ---- roc_with_ci pieces ----------------------------------------------------------*)
(* _aggregate_rectangles on fixed-point values: x[i], dx[j] = <<lo, hi>>, dy[j] *)
Min2(a, b) == IF a < b THEN a ELSE b
Max2(a, b) == IF a > b THEN a ELSE b
Aggregate(x, dx, dy) ==
  [i \in DOMAIN x |->
     LET ins == {j \in DOMAIN dx : dx[j][1] <= x[i] /\ x[i] <= dx[j][2]}
         lo == CHOOSE v \in {dy[j][1] : j \in ins} \cup {dy[i][1]} :
                 \A w \in {dy[j][1] : j \in ins} \cup {dy[i][1]} : v <= w
         hi == CHOOSE v \in {dy[j][2] : j \in ins} \cup {dy[i][2]} :
                 \A w \in {dy[j][2] : j \in ins} \cup {dy[i][2]} : v >= w
     IN <<lo, hi>>]

(* fixed-point image of an exact rate                                            *)
Rate6(r) == (r[1] * FS) \div r[2]

(* pointwise interval of one rate at one support point (roc_curve.py:329-345):   *)
(* the bootstrap interval, except that an observed rate of exactly 0 or 1 (count *)
(* k = 0 or k = n out of the n samples the rate is defined on) gets the          *)
(* generalised rule-of-three interval                                            *)
RuleOfThree(k, n, boot, a) ==
  IF k = 0 THEN <<0, FS - Root6(a, n)>>
  ELSE IF k = n THEN <<Root6(a, n), FS>>
  ELSE boot

(* closed form of roc_with_ci under an identity sampler.                          *)
(*   fn[j], fp[j] : error counts at support point j;  np, nn : class sizes        *)
(*   u[j] = FNR at threshold_at_fpr(fpr_j),  w[j] = FPR at threshold_at_fnr(fnr_j) *)
(*          (exact rates: with an identity sampler every replicate equals them)   *)
(* returns [fnr |-> band, fpr |-> band], each a sequence of <<lo, hi>>            *)
ClosedFormBands(fn, fp, np, nn, u, w, a) ==
  LET n == Len(fn)
      fnr6 == [j \in 1..n |-> Rate6(R(fn[j], np))]
      fpr6 == [j \in 1..n |-> Rate6(R(fp[j], nn))]
      fnrCI == [j \in 1..n |-> RuleOfThree(fn[j], np, <<Rate6(u[j]), Rate6(u[j])>>, a)]
      fprCI == [j \in 1..n |-> RuleOfThree(fp[j], nn, <<Rate6(w[j]), Rate6(w[j])>>, a)]
  IN [fpr |-> Aggregate(fnr6, fnrCI, fprCI), fnr |-> Aggregate(fpr6, fprCI, fnrCI)]

(* Envelope check that is robust to fixed-point ties: whether a rate equal to an interval end to    *)
(* within one unit (1e-6) is inside that interval depends on the last bits of the floats, so such  *)
(* rectangles may or may not take part.  band[i] must be an envelope for SOME such choice.         *)
EnvelopeOK(x, dx, dy, band, tol) ==
  \A i \in DOMAIN x :
     LET sure  == {j \in DOMAIN dx : dx[j][1] + 1 < x[i] /\ x[i] < dx[j][2] - 1} \cup {i}
         maybe == {j \in DOMAIN dx : dx[j][1] - 1 <= x[i] /\ x[i] <= dx[j][2] + 1} \cup {i}
         loS == CHOOSE v \in {dy[j][1] : j \in sure} : \A w \in {dy[j][1] : j \in sure} : v <= w
         loM == CHOOSE v \in {dy[j][1] : j \in maybe} : \A w \in {dy[j][1] : j \in maybe} : v <= w
         hiS == CHOOSE v \in {dy[j][2] : j \in sure} : \A w \in {dy[j][2] : j \in sure} : v >= w
         hiM == CHOOSE v \in {dy[j][2] : j \in maybe} : \A w \in {dy[j][2] : j \in maybe} : v >= w
     IN /\ loM - tol <= band[i][1] /\ band[i][1] <= loS + tol
        /\ hiS - tol <= band[i][2] /\ band[i][2] <= hiM + tol
        /\ \E j \in maybe : band[i][1] - dy[j][1] <= tol /\ dy[j][1] - band[i][1] <= tol
        /\ \E j \in maybe : band[i][2] - dy[j][2] <= tol /\ dy[j][2] - band[i][2] <= tol
PointwiseCI(fn, fp, np, nn, bootFnr, bootFpr, a) ==
  [fnr |-> [j \in DOMAIN fn |-> RuleOfThree(fn[j], np, <<bootFnr[j][1], bootFnr[j][2]>>, a)],
   fpr |-> [j \in DOMAIN fp |-> RuleOfThree(fp[j], nn, <<bootFpr[j][1], bootFpr[j][2]>>, a)]]

(* the same with arbitrary pointwise bootstrap intervals (a non-identity sampler): x6 / y6 are the     *)
(* curve's FNR / FPR in fixed point, bootFnr / bootFpr the pointwise intervals before the rule of three *)
BandsFromPointwise(fn, fp, np, nn, fnr6, fpr6, bootFnr, bootFpr, a) ==
  LET n == Len(fn)
      fnrCI == [j \in 1..n |-> RuleOfThree(fn[j], np, <<bootFnr[j][1], bootFnr[j][2]>>, a)]
      fprCI == [j \in 1..n |-> RuleOfThree(fp[j], nn, <<bootFpr[j][1], bootFpr[j][2]>>, a)]
  IN [fpr |-> Aggregate(fnr6, fnrCI, fprCI), fnr |-> Aggregate(fpr6, fprCI, fnrCI)]
=============================================================================
