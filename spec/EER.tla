-------------------------------- MODULE EER --------------------------------
(* Equal error rate (Scores.eer, scores.py:748-801).                         *)
(*   Admissible   the property: what a returned (threshold, eer) must satisfy *)
(*   EERCoded     what the code computes on tie-free data: perfect-separation *)
(*                shortcut, sign normalisation, cap by the hard-sample        *)
(*                fractions, the root of the piecewise-linear difference of   *)
(*                the two inverse functions (found there by bisection, here   *)
(*                exactly, segment by segment)                                *)
EXTENDS Threshold, SequencesExt

(* ---- the property ---------------------------------------------------------*)
HardFracPos(o) == R(Len(o.pos), NPos(o))
HardFracNeg(o) == R(Len(o.neg), NNeg(o))
(* c = <<TP,FN,FP,TN>> at the returned threshold, e the returned EER           *)
Admissible(o, c, e) ==
  /\ RLe(RZero, e) /\ RLe(e, ROne)
  /\ RLe(RAbs(RSub(R(FP(c), NNeg(o)), e)), R(1, NNeg(o)))       \* FPR within one sample
  /\ RLe(RAbs(RSub(R(FN(c), NPos(o)), e)), R(1, NPos(o)))       \* FNR within one sample
  /\ RLe(e, RMin(HardFracPos(o), HardFracNeg(o)))
ZeroOK(c, e) == (e = RZero) => (FP(c) = 0 /\ FN(c) = 0)

(* the property is satisfiable for every tie-free object (non-vacuity)        *)
Satisfiable(o) ==
  \E t2 \in (2 * MinSet(ValuesOf(o)) - 1)..(2 * MaxSet(ValuesOf(o)) + 1) :
     LET c == CountCM(o, t2) IN
       \E e \in {R(FP(c), NNeg(o)), R(FN(c), NPos(o)),
                 RMul(R(1, 2), RAdd(R(FP(c), NNeg(o)), R(FN(c), NPos(o))))} : Admissible(o, c, e)

(* ---- as coded ----------------------------------------------------------------*)
Separated(o) == IF o.sc = "pos" THEN o.pos[1] > o.neg[Len(o.neg)]
                                ELSE o.pos[Len(o.pos)] < o.neg[1]
SepThreshold(o) == IF o.sc = "pos" THEN R(o.pos[1] + o.neg[Len(o.neg)], 2)
                                   ELSE R(o.pos[Len(o.pos)] + o.neg[1], 2)

TQ(o, m, x) == SentQ(ThresholdCoded(o, m, x, "linear"), RelScores(o, m))
Diff(o, x) == RSub(TQ(o, "fpr", x), TQ(o, "fnr", x))
Sgn(q) == IF q[1] > 0 THEN 1 ELSE IF q[1] < 0 THEN -1 ELSE 0
SignOf(o) == -Sgn(Diff(o, RZero))
F(o, x) == RMul(RInt(SignOf(o)), Diff(o, x))

Breaks(o, cap) ==
  LET S == {R(k, NPos(o)) : k \in 0..NPos(o)} \cup {R(k, NNeg(o)) : k \in 0..NNeg(o)} \cup {cap}
  IN SortSeq(SetToSeq({x \in S : RLe(x, cap)}), RLt)

(* root of the line through (u,fu), (v,fv)                                     *)
LineRoot(u, fu, v, fv) == RSub(u, RDiv(RMul(fu, RSub(v, u)), RSub(fv, fu)))
(* candidate roots, one per elementary segment on which F is linear            *)
SegRoots(o, cap) ==
  LET B == Breaks(o, cap) IN
  {r \in UNION {LET a == B[i]  b == B[i + 1]
                    u == RDiv(RAdd(RMul(RInt(2), a), b), RInt(3))
                    v == RDiv(RAdd(a, RMul(RInt(2), b)), RInt(3))
                    fu == F(o, u)  fv == F(o, v)
                IN IF fu = fv THEN (IF fu = RZero THEN {a, b} ELSE {})
                   ELSE LET r0 == LineRoot(u, fu, v, fv) IN
                        IF RLe(a, r0) /\ RLe(r0, b) THEN {r0} ELSE {}
                : i \in 1..(Len(B) - 1)} : TRUE}
MinRat(S) == CHOOSE x \in S : \A y \in S : RLe(x, y)
MaxRat(S) == CHOOSE x \in S : \A y \in S : RLe(y, x)

(* result <<threshold (rational), eer>>; defined for tie-free objects with     *)
(* both classes non-empty                                                      *)
EERCoded(o) ==
  IF Separated(o) THEN <<SepThreshold(o), RZero>>
  ELSE LET hp  == HardPosRatio(o)
           hn  == HardNegRatio(o)
           cap == RMin(hp, hn)
       IN IF RLt(F(o, cap), RZero)
          THEN (IF hp = hn THEN <<RMul(R(1, 2), RAdd(TQ(o, "fpr", cap), TQ(o, "fnr", cap))), cap>>
                ELSE IF RLt(hp, hn) THEN <<TQ(o, "fpr", hp), hp>>
                ELSE <<TQ(o, "fnr", hn), hn>>)
          ELSE LET rs == SegRoots(o, cap)
                   e  == IF rs = {} THEN cap
                         ELSE RMul(R(1, 2), RAdd(MinRat(rs), MaxRat(rs)))
               IN <<TQ(o, "fpr", e), e>>

QPos2(q) == IF q[1] % q[2] = 0 THEN 2 * (q[1] \div q[2]) ELSE 2 * RFloor(q) + 1
=============================================================================
