------------------------------ MODULE Trace_C11 ------------------------------
(* Judge for C11.  A behaviour is  Start  Draw*  Built  [Start ...]  EndHistory *)
(* Draw events are np.random calls observed (or scripted) from outside the      *)
(* library.  Two levels:                                                         *)
(*  L1 structural (conformance, DRIFT): each recorded call is Bootstrap's       *)
(*     NextCall in the current state with a possible outcome, and the sample is *)
(*     SampleFrom the recorded outcomes;                                         *)
(*  L2 procedure-agnostic (verdict): every recorded sample is a well-formed      *)
(*     resample of its source, and over a history of M samples every source      *)
(*     score is drawn once per sample on average (8-sigma bound).                *)
EXTENDS Bootstrap, TLC, Json, IOUtils, TLCExt

Log == ndJsonDeserialize(IOEnv.TRACE_FILE)
VARIABLES l, run, hist
vars == <<l, run, hist>>
Report(e, fails) == \A c \in fails : PrintT(<<"FAILED", e.id, c>>)
Failing(S) == {p[1] : p \in {q \in S : ~q[2]}}
IsEvent(op) == l <= Len(Log) /\ Log[l].op = op /\ l' = l + 1
ObjOfRec(r) == Obj(r.pos, r.neg, r.ep, r.en, r.sc, r.ec)
NoRun == [active |-> FALSE]
NoHist == [m |-> 0, pos |-> <<>>, neg |-> <<>>, np |-> 0, nn |-> 0, src |-> <<>>]
Init == l = 1 /\ run = NoRun /\ hist = NoHist

TraceStart ==
  /\ IsEvent("Start")
  /\ LET e == Log[l] IN
       run' = [active |-> TRUE, src |-> ObjOfRec(e.src),
               cfg |-> [method |-> e.cfg.method, strat |-> e.cfg.strat, ratio |-> e.cfg.ratio],
               smooth |-> e.cfg.smooth, draws |-> <<>>, drift |-> FALSE]
  /\ UNCHANGED hist

Desc(c) == IF c.fn = "none" THEN c
           ELSE [fn |-> c.fn, n |-> IF "n" \in DOMAIN c THEN c.n ELSE 0,
                 p |-> IF "p" \in DOMAIN c THEN c.p ELSE <<0, 1>>,
                 a |-> IF "a" \in DOMAIN c THEN c.a ELSE 0, size |-> c.size]
TraceDraw ==
  /\ IsEvent("Draw") /\ run.active
  /\ UNCHANGED hist
  /\ LET e == Log[l]
         skip == run.drift \/ run.smooth
         want == IF skip THEN [fn |-> "none"] ELSE Desc(NextCall(run.src, run.cfg, run.draws))
         got == [fn |-> e.fn, n |-> e.n, p |-> e.p, a |-> e.a, size |-> e.size]
         same == /\ want.fn = got.fn /\ want.size = got.size
                 /\ (got.fn \in {"binomial", "poisson"} => (want.n = got.n /\ REq(want.p, got.p)))
                 /\ (got.fn \in {"choice", "choice_norepl", "randint"} => want.a = got.a)
         possible == same /\ Possible(NextCall(run.src, run.cfg, run.draws), e.out)
     IN /\ run' = [run EXCEPT !.draws = Append(@, e.out), !.drift = skip \/ ~possible]
        /\ Report(e, Failing({<<"DRIFT.draw_call", skip \/ same>>,
                              <<"DRIFT.draw_outcome", skip \/ ~same \/ possible>>}))

CountVal(s, v) == Cardinality({i \in DOMAIN s : s[i] = v})
TraceBuilt ==
  /\ IsEvent("Built") /\ run.active
  /\ LET e == Log[l]
         src == run.src
         cfg == run.cfg
         ok == e.exc = ""
         smp == ObjOfRec(e.sample)
         M == Resolve(src, cfg)
         complete == ~run.drift /\ ~run.smooth /\ NextCall(src, cfg, run.draws).fn = "none"
     IN /\ run' = NoRun
        /\ hist' = IF ok /\ e.accumulate
                   THEN [m |-> hist.m + 1, src |-> src,
                         pos |-> IF hist.m = 0 THEN [i \in DOMAIN src.pos |-> CountVal(smp.pos, src.pos[i])]
                                 ELSE [i \in DOMAIN src.pos |-> hist.pos[i] + CountVal(smp.pos, src.pos[i])],
                         neg |-> IF hist.m = 0 THEN [i \in DOMAIN src.neg |-> CountVal(smp.neg, src.neg[i])]
                                 ELSE [i \in DOMAIN src.neg |-> hist.neg[i] + CountVal(smp.neg, src.neg[i])],
                         np |-> hist.np + NPos(smp), nn |-> hist.nn + NNeg(smp)]
                   ELSE hist
        /\ Report(e, Failing({
             <<"C11.raised", ok>>,
             <<"C11.config_preserved", ~ok \/ (smp.sc = src.sc /\ smp.ec = src.ec)>>,
             <<"C11.scores_from_same_class", ~ok \/ run.smooth \/
                  (SubBag(smp.pos, src.pos) /\ SubBag(smp.neg, src.neg))>>,
             <<"C11.internally_ordered", ~ok \/ (IsAsc(smp.pos) /\ IsAsc(smp.neg))>>,
             <<"C11.at_least_one_scored_sample", ~ok \/
                  ((Len(src.pos) > 0 => Len(smp.pos) > 0) /\ (Len(src.neg) > 0 => Len(smp.neg) > 0))>>,
             <<"C11.replacement_preserves_total", ~ok \/ M # "replacement" \/ TotalPreserved(src, smp)>>,
             <<"C11.by_label_preserves_strata", ~ok \/ ~ByLabel(cfg) \/ M = "proportion" \/
                  (smp.ep = src.ep /\ smp.en = src.en /\
                   (M = "replacement" => (Len(smp.pos) = Len(src.pos) /\ Len(smp.neg) = Len(src.neg))))>>,
             (* smoothing adds kernel noise of the order of the spread of the scores: no smoothed score   *)
             (* lies further than three score ranges outside the source's range                       *)
             <<"C11.smoothed_scores_stay_near_the_source", ~ok \/ ~("smooth_near_source" \in DOMAIN e) \/
                  e.smooth_near_source>>,
             <<"C11.proportion_without_replacement", ~ok \/ M # "proportion" \/ ProportionOK(src, cfg, smp)>>,
             <<"DRIFT.sample_model", ~ok \/ ~complete \/ smp = SampleFrom(src, cfg, run.draws)>>,
             <<"DRIFT.calls_left", ~ok \/ run.drift \/ run.smooth \/ complete>>}))

(* |sum of multiplicities of score i - M| <= 8 sqrt(2 M), squared                *)
Within(total, expect, m) == (total - expect) * (total - expect) <= 128 * m + 64
TraceEndHistory ==
  /\ IsEvent("EndHistory")
  /\ run' = run /\ hist' = NoHist
  /\ LET e == Log[l]
         h == hist
         src == h.src
         (* tied scores are counted together: expect multiplicity * M             *)
         cnt(s, i) == CountVal(s, s[i])
     IN Report(e, Failing({
          <<"C11.history_complete", h.m = e.m>>,
          <<"C11.every_score_reachable", h.m # e.m \/ ~e.unbiased \/
               ((\A i \in DOMAIN h.pos : h.pos[i] > 0) /\ (\A i \in DOMAIN h.neg : h.neg[i] > 0))>>,
          <<"C11.once_per_sample_on_average", h.m # e.m \/ ~e.unbiased \/
               /\ \A i \in DOMAIN h.pos : Within(h.pos[i], cnt(src.pos, i) * h.m, cnt(src.pos, i) * cnt(src.pos, i) * h.m)
               /\ \A i \in DOMAIN h.neg : Within(h.neg[i], cnt(src.neg, i) * h.m, cnt(src.neg, i) * cnt(src.neg, i) * h.m)>>,
          <<"C11.expected_class_sizes", h.m # e.m \/ ~e.unbiased \/
               /\ Within(h.np, NPos(src) * h.m, NPos(src) * h.m)
               /\ Within(h.nn, NNeg(src) * h.m, NNeg(src) * h.m)>>}))

(* sampling_method given as a callable (any callable form): Bootstrap's custom mode - no RNG call *)
(* of the library, the callable is applied once to the source and its value is the sample       *)
TraceCallable ==
  /\ IsEvent("Callable") /\ UNCHANGED <<run, hist>>
  /\ LET e == Log[l] IN
       Report(e, Failing({
         <<"C11.raised", e.exc = "">>,
         <<"C11.callable_sampler_is_applied_to_the_source_and_returned", e.exc # "" \/
              (e.ncalls = 2 /\ e.called_with_source /\ e.returned_as_is)>>}))

(* a scripted outcome of the model could not be replayed because the implementation asked the     *)
(* generator for something else than the model's next call: conformance drift, never a verdict   *)
TraceScriptDrift ==
  /\ IsEvent("ScriptDrift") /\ UNCHANGED <<run, hist>>
  /\ Report(Log[l], {"DRIFT.scripted_replay_follows_model"})

Next == TraceScriptDrift \/ TraceStart \/ TraceDraw \/ TraceBuilt \/ TraceEndHistory \/ TraceCallable
Spec == Init /\ [][Next]_vars
AllConsumed == TLCGet("stats").diameter - 1 = Len(Log)
=============================================================================
