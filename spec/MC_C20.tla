------------------------------- MODULE MC_C20 -------------------------------
EXTENDS Datasets, TLC
CONSTANTS NMax
VARIABLES a1, a2, r, n
vars == <<a1, a2, r, n>>
Rhos == {-20, -15, -10, -6, -5, -2, 0, 2, 5, 6, 10, 15, 20}
Init == a1 \in 0..PD /\ a2 \in 0..PD /\ r \in Rhos /\ n = 1
Grow == n < NMax /\ n' = n + 1 /\ UNCHANGED <<a1, a2, r>>
Next == Grow
Spec == Init /\ [][Next]_vars
(* deterministic Bernoulli count is within one draw of n p and never above it     *)
InvBernoulli == /\ RLe(RInt(BernoulliCount(n, a1)), R(n * a1, PD))
                /\ RLt(R(n * a1, PD), RInt(BernoulliCount(n, a1) + 1))
(* independence (rho = 0) is always a valid joint distribution; perfect            *)
(* correlation of unequal marginals never is                                       *)
InvIndependentValid == r = 0 => Valid(a1, a2, r)
InvPerfectCorrelation == (r = RD /\ a1 # a2 /\ a1 \in 1..(PD - 1) /\ a2 \in 1..(PD - 1)) => ClearlyInvalid(a1, a2, r)
InvSymmetric == Valid(a1, a2, r) = Valid(a2, a1, r)
=============================================================================
