------------------------------- MODULE MC_C05 -------------------------------
(* Bounded model for C05: a confusion matrix grows one weighted sample at a  *)
(* time (action AddSample); invariants state conservation and structure of   *)
(* the one-vs-all binarisation and permutation equivariance.                 *)
EXTENDS MultiCM, TLC, Json, IOUtils, SequencesExt

CONSTANTS NC,      \* number of classes 0..NC-1
          MaxLen,  \* number of samples
          Weights

Classes == 0..(NC - 1)
Cls == [i \in 1..NC |-> i - 1]
Samples == {<<a, b, w>> : a \in Classes, b \in Classes, w \in Weights}

VARIABLES samples
vars == <<samples>>
Init == samples = <<>>
AddSample(s) == Len(samples) < MaxLen /\ samples' = Append(samples, s)
Next == \E s \in Samples : AddSample(s)
Spec == Init /\ [][Next]_vars

M == Build(samples, Cls)

(* adding <<a,b,w>> changes exactly cell [a][b], by w                        *)
AddIsLocal ==
  [][\A i \in 1..NC, j \in 1..NC :
        LET s == samples'[Len(samples')] IN
        Build(samples', Cls)[i][j] - M[i][j] = (IF Cls[i] = s[1] /\ Cls[j] = s[2] THEN s[3] ELSE 0)]_vars

InvPopulation == Total(M) = SumSeq([k \in DOMAIN samples |-> samples[k][3]])
(* each 2x2 sums to the total; TP on the diagonal, P row sums, TOP column sums *)
InvOneVsAll == \A j \in 1..NC :
  LET b == OneVsAll(M)[j] IN
    /\ bPOP(b) = Total(M) /\ bTP(b) = M[j][j] /\ bP(b) = RowSum(M, j) /\ bTOP(b) = ColSum(M, j)
    /\ bFN(b) >= 0 /\ bFP(b) >= 0 /\ bTN(b) >= 0
(* permutation equivariance of the binarisation                              *)
Perms == {p \in [1..NC -> 1..NC] : \A i, j \in 1..NC : i # j => p[i] # p[j]}
InvEquivariant == \A p \in Perms :
  LET newcls == [i \in 1..NC |-> Cls[p[i]]]
      Mp == Reorder(M, Cls, newcls)
  IN /\ Mp = Build(samples, newcls)
     /\ \A i \in 1..NC : OneVsAll(Mp)[i] = OneVsAll(M)[p[i]]
InvAccuracy == Accuracy(M) = Div(Trace(M), Total(M))
InvAutoClasses == Len(samples) > 0 =>
  LET ac == AutoClasses(samples) IN
    /\ Total(Build(samples, ac)) = Total(M)
    /\ \A i \in DOMAIN ac : \A j \in DOMAIN ac : Build(samples, ac)[i][j] = M[ac[i] + 1][ac[j] + 1]

Cases == UNION {[1..n -> Samples] : n \in 1..MaxLen}
EmitCases ==
  TLCGet("stats").distinct >= 0 /\
  JsonSerialize(IOEnv.CASES_FILE, [nc |-> NC, cases |-> SetToSeq(Cases)])
=============================================================================
