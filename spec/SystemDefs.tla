----------------------------- MODULE SystemDefs -----------------------------
(* Definitions shared by System (the state machine) and its trace specification. *)
(* The library as one state machine: a store of live objects, constructor      *)
(* actions that add to it, and QUERY actions that must leave it - and every     *)
(* array the caller passed in - exactly as they were (C10).  Queries are        *)
(* vectorised: they take an array argument of some shape; the shape of the      *)
(* result is a function of the operation and of the argument shape              *)
(* (ShapeRule), and each element of the result is the result of the scalar      *)
(* call on that element.                                                        *)
(*                                                                             *)
(* Behaviours of this machine (TLC -simulate) are replayed call by call into    *)
(* the implementation; the trace specification Trace_C10 consumes the recorded  *)
(* results, the projected object state after every call and the caller's array  *)
(* after every call.                                                            *)
EXTENDS Threshold, AUC, EER

RateOps == {"tpr", "fnr", "tnr", "fpr", "topr", "tonr",
            "tar", "frr", "trr", "far", "acceptance_rate", "rejection_rate"}
ThrOps == {"threshold_at_tpr", "threshold_at_fnr", "threshold_at_tnr", "threshold_at_fpr",
           "threshold_at_topr", "threshold_at_tonr"}
ScalarOps == {"eer", "auc"}
QueryOps == {"cm"} \cup RateOps \cup ThrOps \cup ScalarOps \cup {"pointwise_cm", "cm_metrics"}
Shapes == {<<>>, <<0>>, <<3>>, <<2, 0>>, <<2, 3>>, <<1, 2, 2>>, <<2, 2>>}
RECURSIVE Prod(_)
Prod(s) == IF s = <<>> THEN 1 ELSE Head(s) * Prod(Tail(s))

(* shape of the result as a function of operation and argument shape             *)
ShapeRule(op, shape, nscores) ==
  CASE op = "cm" -> shape \o <<2, 2>>
    [] op \in RateOps \cup ThrOps \cup {"cm_metrics"} -> shape
    [] op = "pointwise_cm" -> <<nscores>> \o shape \o <<2, 2>>
    [] op = "eer" -> <<2>>
    [] op = "auc" -> <<>>
=============================================================================
