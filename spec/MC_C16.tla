------------------------------- MODULE MC_C16 -------------------------------
(* Bounded model for C16: the closed form of roc_with_ci under an identity      *)
(* sampler (rule of three exactly at rates 0 / 1, envelope of the pointwise      *)
(* rectangles covering each point) on the default support of every small object: *)
(* bands are ordered, inside [0,1] and contain each point's own pointwise        *)
(* interval; the rule of three fires exactly at counts 0 and n.                  *)
EXTENDS ROC, TLC

CONSTANTS K, MaxP, MaxN, EasyPairs, Alphas
EasyQuick == {<<0, 0>>, <<2, 3>>}
AlphasAll == {50, 100}
V == 0..(K - 1)
Objects ==
  {o \in [pos : AscSeqs(V, MaxP), neg : AscSeqs(V, MaxN), ep : {e[1] : e \in EasyPairs},
          en : {e[2] : e \in EasyPairs}, sc : Labels, ec : Labels] :
     /\ <<o.ep, o.en>> \in EasyPairs /\ Len(o.pos) > 0 /\ Len(o.neg) > 0}

VARIABLES obj, res
vars == <<obj, res>>
None == [a |-> 0]
Init == obj \in Objects /\ res = None
(* u, w as the model computes them: rate at the threshold set for the other rate *)
UW(o, sup) ==
  LET rt(t) == RatesAt(o, t) IN
  [u |-> [j \in DOMAIN sup |-> RatesAt(o, ThrAt(o, "fpr", rt(sup[j]).fpr)).fnr],
   w |-> [j \in DOMAIN sup |-> RatesAt(o, ThrAt(o, "fnr", rt(sup[j]).fnr)).fpr]]
RocWithCI(nb, a) ==
  /\ res = None /\ UNCHANGED obj
  /\ LET sup == Support(obj, <<>>, <<>>, <<>>, nb, "fpr")
         fn == [j \in DOMAIN sup |-> FN(CountCM(obj, T3Pos2(sup[j])))]
         fp == [j \in DOMAIN sup |-> FP(CountCM(obj, T3Pos2(sup[j])))]
         uw == UW(obj, sup)
     IN res' = [a |-> a, fn |-> fn, fp |-> fp, u |-> uw.u, w |-> uw.w,
                bands |-> ClosedFormBands(fn, fp, NPos(obj), NNeg(obj), uw.u, uw.w, a)]
Next == \E nb \in {-1, 4, 7}, a \in Alphas : RocWithCI(nb, a)
Spec == Init /\ [][Next]_vars

Done == res # None
InvWellFormed == Done => \A j \in DOMAIN res.fn :
   /\ res.bands.fnr[j][1] <= res.bands.fnr[j][2] /\ res.bands.fpr[j][1] <= res.bands.fpr[j][2]
   /\ 0 <= res.bands.fnr[j][1] /\ res.bands.fnr[j][2] <= FS
   /\ 0 <= res.bands.fpr[j][1] /\ res.bands.fpr[j][2] <= FS
InvContainsOwn == Done => \A j \in DOMAIN res.fn :
   LET own == RuleOfThree(res.fn[j], NPos(obj), <<Rate6(res.u[j]), Rate6(res.u[j])>>, res.a) IN
     res.bands.fnr[j][1] <= own[1] /\ own[2] <= res.bands.fnr[j][2]
=============================================================================
