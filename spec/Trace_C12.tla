------------------------------ MODULE Trace_C12 ------------------------------
(* Judge for C12.  Objects are rebuilt by the specification's own actions from  *)
(* the ARGUMENTS (NewG / SwapG); what the implementation reports (its pos /     *)
(* pos_groups / neg / neg_groups arrays in their actual order, __getitem__,     *)
(* group_cm, groupwise metrics, bootstrap samples) is judged against them.      *)
EXTENDS GroupScores, TLC, Json, IOUtils, TLCExt

Log == ndJsonDeserialize(IOEnv.TRACE_FILE)
VARIABLES l, store, raw, run
vars == <<l, store, raw, run>>
Report(e, fails) == \A c \in fails : PrintT(<<"FAILED", e.id, c>>)
Failing(S) == {p[1] : p \in {q \in S : ~q[2]}}
IsEvent(op) == l <= Len(Log) /\ Log[l].op = op /\ l' = l + 1
NoRun == [active |-> FALSE]
Init == l = 1 /\ store = <<>> /\ raw = <<>> /\ run = NoRun

Pairs(s) == [i \in DOMAIN s |-> <<s[i][1], s[i][2]>>]
(* a recorded object: arrays in the order the implementation holds them          *)
RecOK(r, o) ==
  /\ SameBag(Pairs(r.pos), o.pos) /\ SameBag(Pairs(r.neg), o.neg)       \* labels stay attached
  /\ IsAsc(ScoresOf(Pairs(r.pos))) /\ IsAsc(ScoresOf(Pairs(r.neg)))    \* internally ordered
  /\ r.sc = o.sc /\ r.ec = o.ec
GroupsOK(r, o) == r.groups = o.groups
(* the arrangement the implementation actually holds (order among equal scores *)
(* is its own business): indices drawn by the RNG refer to THIS order          *)
RawOf(r, o) == IF RecOK(r, o) THEN GObj(Pairs(r.pos), Pairs(r.neg), o.sc, o.ec, o.groups) ELSE o

TraceNewG ==
  /\ IsEvent("NewG")
  /\ LET e == Log[l]
         a == e.args
         o0 == NewG(Pairs(a.pos), Pairs(a.neg), a.sc, a.ec)
         (* explicitly given group names are used as they are, in the given order            *)
         o == IF "names" \in DOMAIN a /\ Len(a.names) > 0 THEN [o0 EXCEPT !.groups = a.names] ELSE o0
     IN /\ store' = (e.h :> o) @@ store /\ UNCHANGED run
        /\ raw' = (e.h :> (IF e.exc = "" THEN RawOf(e.post, o) ELSE o)) @@ raw
        /\ Report(e, Failing({
             <<"C12.raised", e.exc = "">>,
             <<"C12.labels_stay_attached_through_sorting", e.exc # "" \/ RecOK(e.post, o)>>,
             <<"C12.group_list", e.exc # "" \/ GroupsOK(e.post, o)>>}))

TraceSwapG ==
  /\ IsEvent("SwapG")
  /\ LET e == Log[l]
         o == SwapG(store[e.h])
     IN /\ store' = (e.h2 :> o) @@ store /\ UNCHANGED run
        /\ raw' = (e.h2 :> (IF e.exc = "" THEN RawOf(e.post, o) ELSE o)) @@ raw
        /\ Report(e, Failing({
             <<"C12.raised", e.exc = "">>,
             <<"C12.labels_stay_attached_through_swap", e.exc # "" \/ (RecOK(e.post, o) /\ GroupsOK(e.post, o))>>}))

TraceGetItem ==
  /\ IsEvent("GetItem")
  /\ LET e == Log[l]
         o == store[e.h]
         w == GetItem(o, e.g)
     IN /\ UNCHANGED <<store, raw, run>>
        /\ Report(e, Failing({
             <<"C12.raised", e.exc = "">>,
             <<"C12.getitem_is_exactly_that_group", e.exc # "" \/
                  (e.out.pos = w.pos /\ e.out.neg = w.neg /\ e.out.sc = w.sc /\ e.out.ec = w.ec
                   /\ e.out.ep = 0 /\ e.out.en = 0)>>}))

Cells(c) == <<c[1], c[2], c[3], c[4]>>
RateRec(r) == IF r = NaN THEN <<0, 0>> ELSE r
SameQ(a, b) == IF a[2] = 0 \/ b[2] = 0 THEN a[2] = 0 /\ b[2] = 0 ELSE (a[2] > 0 /\ b[2] > 0 /\ REq(a, b))
TraceGroupCM ==
  /\ IsEvent("GroupCM")
  /\ LET e == Log[l]
         o == store[e.h]
         ng == Len(o.groups)
         n == Len(e.t2)
         ok == e.exc = "" /\ Len(e.out) = ng /\ \A k \in 1..ng : Len(e.out[k]) = n
         okm == ok /\ \A m \in DOMAIN e.metrics : Len(e.metrics[m]) = ng /\ Len(e.groupwise[m]) = ng
     IN /\ UNCHANGED <<store, raw, run>>
        /\ Report(e, Failing({
             <<"C12.raised", e.exc = "">>,
             <<"C12.shape", e.exc # "" \/ ok>>,
             <<"C12.group_cm_is_cm_of_filtered_data", ~ok \/ \A k \in 1..ng : \A i \in 1..n :
                  Cells(e.out[k][i]) = CountCM(GetItem(o, o.groups[k]), e.t2[i])>>,
             <<"C12.group_cm_sums_to_overall", ~ok \/ Len(e.overall) # n \/ \A i \in 1..n :
                  SumCells([k \in 1..ng |-> Cells(e.out[k][i])]) = Cells(e.overall[i])>>,
             <<"C12.group_metric_is_metric_of_group", ~okm \/ \A m \in DOMAIN e.metrics : \A k \in 1..ng :
                  \A i \in 1..n : SameQ(e.metrics[m][k][i],
                                        RateRec(MetricRate(m, CountCM(GetItem(o, o.groups[k]), e.t2[i]))))>>,
             <<"C12.groupwise_equals_group_by_group", ~okm \/ \A m \in DOMAIN e.metrics : \A k \in 1..ng :
                  \A i \in 1..n : SameQ(e.groupwise[m][k][i], e.metrics[m][k][i])>>}))

(* ---- sampling ----------------------------------------------------------------------*)
TraceStartG ==
  /\ IsEvent("StartG")
  /\ LET e == Log[l] IN
       run' = [active |-> TRUE, src |-> raw[e.h],
               cfg |-> [method |-> e.cfg.method, strat |-> e.cfg.strat, ratio |-> <<1, 2>>],
               gdraws |-> <<>>, drift |-> FALSE]
  /\ UNCHANGED <<store, raw>>

(* open draw sequences (one per part) as the model prescribes, silently            *)
RECURSIVE Opened(_, _, _)
Opened(g, cfg, gd) == IF NextCallG(g, cfg, gd).fn = "open" THEN Opened(g, cfg, Append(gd, <<>>)) ELSE gd
TraceDraw ==
  /\ IsEvent("Draw") /\ run.active /\ UNCHANGED <<store, raw>>
  /\ LET e == Log[l]
         gd == IF run.drift THEN run.gdraws ELSE Opened(run.src, run.cfg, run.gdraws)
         c == IF run.drift THEN [fn |-> "none"] ELSE NextCallG(run.src, run.cfg, gd)
         same == /\ c.fn = e.fn /\ c.size = e.size
                 /\ (e.fn \in {"binomial", "poisson"} => (c.n = e.n /\ REq(c.p, e.p)))
                 /\ (e.fn \in {"choice", "choice_norepl", "randint"} => c.a = e.a)
         possible == same /\ Possible(c, e.out)
     IN /\ run' = IF run.drift \/ ~possible THEN [run EXCEPT !.drift = TRUE]
                  ELSE [run EXCEPT !.gdraws = [gd EXCEPT ![Len(gd)] = Append(@, e.out)]]
        /\ Report(e, Failing({<<"DRIFT.draw_call", run.drift \/ same>>,
                              <<"DRIFT.draw_outcome", run.drift \/ ~same \/ possible>>}))

TraceBuiltG ==
  /\ IsEvent("BuiltG") /\ run.active
  /\ LET e == Log[l]
         g == run.src
         cfg == run.cfg
         ok == e.exc = ""
         r == e.sample
         s == GObj(SortPairs(Pairs(r.pos)), SortPairs(Pairs(r.neg)), r.sc, r.ec, r.groups)
         M == ResolveG(g, cfg)
         gd == IF run.drift THEN run.gdraws ELSE Opened(g, cfg, run.gdraws)
         complete == ~run.drift /\ NextCallG(g, cfg, gd).fn = "none"
         n == Len(e.t2)
     IN /\ run' = NoRun
        /\ store' = IF ok THEN (e.h2 :> s) @@ store ELSE store
        /\ raw' = IF ok THEN (e.h2 :> RawOf(r, s)) @@ raw ELSE raw
        /\ Report(e, Failing({
             <<"C12.raised", ok>>,
             <<"C12.sample_keeps_labels_attached", ~ok \/ (PairsFrom(s.pos, g.pos) /\ PairsFrom(s.neg, g.neg))>>,
             <<"C12.sample_internally_ordered", ~ok \/
                  (IsAsc(ScoresOf(Pairs(r.pos))) /\ IsAsc(ScoresOf(Pairs(r.neg))))>>,
             <<"C12.sample_keeps_group_list", ~ok \/ (r.groups = g.groups /\ r.sc = g.sc /\ r.ec = g.ec)>>,
             <<"C12.by_group_keeps_group_sizes", ~ok \/ cfg.strat # "by_group" \/ M # "replacement" \/
                  GroupSizesKept(g, s)>>,
             <<"C12.by_label_keeps_class_sizes", ~ok \/ cfg.strat # "by_label" \/ M # "replacement" \/
                  ClassSizesKept(g, s)>>,
             <<"C12.sample_group_cm_sums_to_overall", ~ok \/ Len(e.group_cm) # Len(g.groups) \/
                  \A i \in 1..n :
                    /\ SumCells([k \in DOMAIN g.groups |-> Cells(e.group_cm[k][i])]) = Cells(e.overall[i])
                    /\ Cells(e.overall[i]) = CountCM(AsScores(s), e.t2[i])
                    /\ \A k \in DOMAIN g.groups :
                         Cells(e.group_cm[k][i]) = CountCM(GetItem(s, g.groups[k]), e.t2[i])>>,
             <<"DRIFT.sample_model", ~ok \/ ~complete \/
                  (s.pos = SampleFromG(g, cfg, gd).pos /\ s.neg = SampleFromG(g, cfg, gd).neg)>>,
             <<"DRIFT.calls_left", ~ok \/ run.drift \/ complete>>}))

(* a scripted outcome of the model could not be replayed: conformance drift, never a verdict      *)
TraceScriptDrift ==
  /\ IsEvent("ScriptDrift") /\ UNCHANGED <<store, raw, run>>
  /\ Report(Log[l], {"DRIFT.scripted_replay_follows_model"})

Next == TraceNewG \/ TraceSwapG \/ TraceGetItem \/ TraceGroupCM \/ TraceStartG \/ TraceDraw \/ TraceBuiltG \/ TraceScriptDrift
Spec == Init /\ [][Next]_vars
AllConsumed == TLCGet("stats").diameter - 1 = Len(Log)
=============================================================================
