------------------------------- MODULE MC_C07 -------------------------------
(* Bounded model for C07: the trapezoid technique against the Mann-Whitney   *)
(* statistic (all ties) and the exact step area (no cross-class ties), and   *)
(* the derived relations between axis choices.                               *)
EXTENDS AUC, Json, IOUtils, SequencesExt

CONSTANTS K, MaxP, MaxN, EasyPairs, Cuts

EasyQuick    == {<<0, 0>>, <<2, 3>>, <<1, 0>>}
EasyThorough == {<<0, 0>>, <<2, 3>>, <<1, 0>>, <<0, 2>>, <<3, 2>>}
CutsQuick    == {<<0, 1>>, <<1, 5>>, <<1, 4>>, <<1, 3>>, <<1, 2>>, <<2, 3>>, <<4, 5>>, <<1, 1>>}
CutsThorough == CutsQuick \cup {<<1, 6>>, <<3, 5>>, <<1, 7>>}

V == 0..(K - 1)
Objects ==
  {o \in [pos : AscSeqs(V, MaxP), neg : AscSeqs(V, MaxN), ep : {e[1] : e \in EasyPairs},
          en : {e[2] : e \in EasyPairs}, sc : Labels, ec : Labels] :
     /\ <<o.ep, o.en>> \in EasyPairs /\ Len(o.pos) > 0 /\ Len(o.neg) > 0}

Windows == {<<a, b>> \in Cuts \X Cuts : RLe(a, b)}

VARIABLES obj, stage
vars == <<obj, stage>>
Null == [pos |-> <<0>>, neg |-> <<0>>, ep |-> 0, en |-> 0, sc |-> "pos", ec |-> "pos"]
(* one initial state; objects are picked by an action so that TLC's workers   *)
(* evaluate the (expensive) invariants in parallel                             *)
Init == obj = Null /\ stage = "none"
(* objects are picked in two steps (positives first) so that TLC's workers    *)
(* share the (expensive) invariant evaluations                                 *)
PickPos == /\ stage = "none" /\ stage' = "pos"
           /\ \E p \in AscSeqs(V, MaxP) \ {<<>>} : obj' = [obj EXCEPT !.pos = p]
PickRest == /\ stage = "pos" /\ stage' = "picked"
            /\ \E o \in Objects : o.pos = obj.pos /\ obj' = o
(* environment action: the same data read with the other tie convention       *)
FlipEqualClass == stage = "picked" /\ stage' = "flipped" /\ obj' = [obj EXCEPT !.ec = Flip(obj.ec)]
Next == PickPos \/ PickRest \/ FlipEqualClass
Spec == Init /\ [][Next]_vars
Ready == stage \in {"picked", "flipped"}

Full(o) == TrapezoidCoded(o, RZero, ROne, "fpr", "tpr")
Part(o, w) == TrapezoidCoded(o, w[1], w[2], "fpr", "tpr")

InvFullIsMannWhitney == Ready => Full(obj) = MannWhitney(obj)
EqualClassIrrelevant == [][stage = "picked" => Full(obj') = Full(obj)]_vars
InvAxisExchange == Ready => TrapezoidCoded(obj, RZero, ROne, "tpr", "fpr") = RSub(ROne, Full(obj))

(* all window properties in one invariant so that every area is computed once *)
InvWindows == (Ready /\ ~CrossTie(obj)) =>
  LET c1 == Curve(obj, "fpr", "tpr")
      c2 == Curve(obj, "fpr", "fnr")
      c3 == Curve(obj, "tnr", "tpr")
      A == [w \in Windows |-> AreaOn(c1, w[1], w[2])]
  IN /\ \A w \in Windows :
          /\ A[w] = StepArea(obj, w[1], w[2])                          \* exact step area
          /\ RLe(A[w], RSub(w[2], w[1]))                               \* at most upper-lower
          /\ AreaOn(c2, w[1], w[2]) = RSub(RSub(w[2], w[1]), A[w])     \* y complement
          /\ AreaOn(c3, RSub(ROne, w[2]), RSub(ROne, w[1])) = A[w]     \* x mirror
     /\ \A a \in Cuts, b \in Cuts, c \in Cuts :                        \* additive
          (RLe(a, b) /\ RLe(b, c)) => RAdd(A[<<a, b>>], A[<<b, c>>]) = A[<<a, c>>]

EmitCases ==
  TLCGet("stats").distinct >= 0 /\
  JsonSerialize(IOEnv.CASES_FILE, [k |-> K, cuts |-> SetToSeq(Cuts), cases |-> SetToSeq(Objects)])
=============================================================================
