------------------------------ MODULE BinaryCM ------------------------------
(* Binary confusion-matrix metrics by their definitions (metrics.py,         *)
(* README "Available metrics").  A matrix is <<TP, FN, FP, TN>> of            *)
(* non-negative integers (counts, possibly in half units).  A rate is a       *)
(* rational <<n, d>> or the token <<0, 0>> (NaN: denominator zero).           *)
EXTENDS Integers, Sequences, Rat

QNaN == <<0, 0>>
IsNaN(r) == r[2] = 0
Div(num, den) == IF den = 0 THEN QNaN ELSE R(num, den)

bTP(m) == m[1]
bFN(m) == m[2]
bFP(m) == m[3]
bTN(m) == m[4]
bP(m)   == m[1] + m[2]
bN(m)   == m[3] + m[4]
bTOP(m) == m[1] + m[3]
bTON(m) == m[2] + m[4]
bPOP(m) == m[1] + m[2] + m[3] + m[4]

RateNames == {"tpr", "fnr", "tnr", "fpr", "ppv", "fdr", "npv", "for_", "topr", "tonr",
              "accuracy", "error_rate"}
RateNum(name, m) ==
  CASE name = "tpr" -> bTP(m) [] name = "fnr" -> bFN(m) [] name = "tnr" -> bTN(m)
    [] name = "fpr" -> bFP(m) [] name = "ppv" -> bTP(m) [] name = "fdr" -> bFP(m)
    [] name = "npv" -> bTN(m) [] name = "for_" -> bFN(m) [] name = "topr" -> bTOP(m)
    [] name = "tonr" -> bTON(m) [] name = "accuracy" -> bTP(m) + bTN(m)
    [] name = "error_rate" -> bFP(m) + bFN(m)
RateDen(name, m) ==
  CASE name \in {"tpr", "fnr"} -> bP(m)   [] name \in {"tnr", "fpr"} -> bN(m)
    [] name \in {"ppv", "fdr"} -> bTOP(m) [] name \in {"npv", "for_"} -> bTON(m)
    [] OTHER -> bPOP(m)
RateOf(name, m) == Div(RateNum(name, m), RateDen(name, m))
Complement(name) ==
  CASE name = "tpr" -> "fnr" [] name = "fnr" -> "tpr" [] name = "tnr" -> "fpr"
    [] name = "fpr" -> "tnr" [] name = "ppv" -> "fdr" [] name = "fdr" -> "ppv"
    [] name = "npv" -> "for_" [] name = "for_" -> "npv" [] name = "topr" -> "tonr"
    [] name = "tonr" -> "topr" [] name = "accuracy" -> "error_rate"
    [] name = "error_rate" -> "accuracy"
AliasOf(name) ==
  CASE name = "tar" -> "tpr" [] name = "frr" -> "fnr" [] name = "trr" -> "tnr"
    [] name = "far" -> "fpr" [] name = "acceptance_rate" -> "topr"
    [] name = "rejection_rate" -> "tonr" [] OTHER -> name

(* same rational, or both NaN                                                *)
SameQ(a, b) == IF IsNaN(a) \/ IsNaN(b) THEN IsNaN(a) /\ IsNaN(b) ELSE (a[2] > 0 /\ b[2] > 0 /\ REq(a, b))
SumsToOne(a, b) == IF IsNaN(a) \/ IsNaN(b) THEN IsNaN(a) /\ IsNaN(b)
                   ELSE REq(RAdd(a, b), ROne)
InUnit(a) == IsNaN(a) \/ (RLe(RZero, a) /\ RLe(a, ROne))
=============================================================================
