------------------------------ MODULE Trace_C19 ------------------------------
(* Judge for C19.  FraudNew events carry the arguments, the outcome (object or  *)
(* exception) and - when an object was built - the results of the same queries  *)
(* on the FraudScores object and on the reference Scores object the refinement  *)
(* mapping prescribes, recorded side by side.                                   *)
EXTENDS Fraud, TLC, Json, IOUtils, TLCExt

Log == ndJsonDeserialize(IOEnv.TRACE_FILE)
VARIABLES l
vars == <<l>>
Report(e, fails) == \A c \in fails : PrintT(<<"FAILED", e.id, c>>)
Failing(S) == {p[1] : p \in {q \in S : ~q[2]}}
IsEvent(op) == l <= Len(Log) /\ Log[l].op = op /\ l' = l + 1
ObjOfRec(r) == Obj(r.pos, r.neg, r.ep, r.en, r.sc, r.ec)
Init == l = 1

TraceFraudNew ==
  /\ IsEvent("FraudNew")
  /\ LET e == Log[l]
         a == e.args
         want == FraudNew(a)
         built == e.exc = ""
         q == e.queries
     IN Report(e, Failing({
          <<"C19.valueerror_iff_outside_unit_interval", (e.exc = "ValueError") <=> (want.raised = "ValueError")>>,
          <<"C19.no_other_exception", e.exc \in {"", "ValueError"}>>,
          <<"C19.is_the_scores_view", ~built \/ want.raised # "" \/ ObjOfRec(e.post) = want.obj>>,
          <<"C19.genuines_frauds_alias_pos_neg", ~built \/ (e.genuines = e.post.pos /\ e.frauds = e.post.neg)>>,
          <<"C19.every_query_equals_scores", ~built \/
               (q.exc_f = q.exc_s /\ q.cm_f = q.cm_s /\ q.rates_f = q.rates_s /\ q.thr_f = q.thr_s
                /\ q.eer_f = q.eer_s /\ q.auc_f = q.auc_s /\ q.bitwise_identical)>>,
          <<"C19.cm_counts_by_the_rule", ~built \/ want.raised # "" \/ q.exc_f # "" \/
               \A i \in DOMAIN q.t2 :
                  <<q.cm_f[i][1], q.cm_f[i][2], q.cm_f[i][3], q.cm_f[i][4]>> = CountCM(want.obj, q.t2[i])>>}))

TraceLabels ==
  /\ IsEvent("labels")
  /\ LET e == Log[l] IN
     Report(e, Failing({
       <<"C19.label_translations_inverse",
           /\ e.d2b = [genuine |-> DocToBinary("genuine"), fraud |-> DocToBinary("fraud")]
           /\ e.b2d = [pos |-> BinaryToDoc("pos"), neg |-> BinaryToDoc("neg")]
           /\ e.roundtrip_ok>>}))

(* NaN among the scores (the token NaNV): a NaN is not itself outside [0,1], but it must not hide  *)
(* a score that is; without any NaN the iff of the property applies                               *)
NaNV == -99
TraceFraudNaN ==
  /\ IsEvent("fraud_nan")
  /\ LET e == Log[l]
         vals == {e.g[i] : i \in DOMAIN e.g} \cup {e.f[i] : i \in DOMAIN e.f}
         outside == \E v \in vals : v # NaNV /\ (v < 0 \/ v > Mid + 1)
         hasnan == NaNV \in vals
     IN Report(e, Failing({
          <<"C19.no_other_exception", e.exc \in {"", "ValueError"}>>,
          <<"C19.valueerror_iff_outside_unit_interval",
               (outside => e.exc = "ValueError") /\ ((~outside /\ ~hasnan) => e.exc = "")>>}))

(* from_labels splits by EQUALITY with the genuine label: samples whose label equals it are genuine, *)
(* all others - also when nothing equals it, or the label is of another type - are frauds          *)
TraceFromLabelsSplit ==
  /\ IsEvent("from_labels_split")
  /\ LET e == Log[l]
         all == {0, 1, 2, 3}
         G == {e.want_genuine[i] : i \in DOMAIN e.want_genuine}
     IN Report(e, Failing({
          <<"C19.no_other_exception", e.exc = "">>,
          <<"C19.from_labels_splits_by_the_genuine_label", e.exc # "" \/
               ({e.genuine[i] : i \in DOMAIN e.genuine} = G /\ {e.fraud[i] : i \in DOMAIN e.fraud} = all \ G
                /\ Len(e.genuine) + Len(e.fraud) = 4)>>}))

Next == TraceFraudNew \/ TraceLabels \/ TraceFraudNaN \/ TraceFromLabelsSplit
Spec == Init /\ [][Next]_vars
AllConsumed == TLCGet("stats").diameter - 1 = Len(Log)
=============================================================================
