------------------------------- MODULE MC_C15 -------------------------------
(* Bounded model for C15: roc() on every small object for every combination   *)
(* of supplied fnr / fpr / thresholds / nb_points and every x_axis.           *)
EXTENDS ROC, Json, IOUtils

CONSTANTS K, MaxP, MaxN, EasyPairs
EasyQuick == {<<0, 0>>, <<2, 1>>}
EasyThorough == {<<0, 0>>, <<2, 1>>, <<0, 3>>}
V == 0..(K - 1)
Objects ==
  {o \in [pos : AscSeqs(V, MaxP), neg : AscSeqs(V, MaxN), ep : {e[1] : e \in EasyPairs},
          en : {e[2] : e \in EasyPairs}, sc : Labels, ec : Labels] :
     /\ <<o.ep, o.en>> \in EasyPairs /\ Len(o.pos) > 0 /\ Len(o.neg) > 0}

FnrArgs == {<<>>, <<<<0, 1>>, <<1, 2>>>>, <<<<1, 3>>>>}
FprArgs == {<<>>, <<<<1, 4>>, <<1, 1>>>>, <<<<2, 3>>, <<0, 1>>, <<2, 3>>>>}
(* +-1000000 stands for +-infinity (accept-all / reject-all end points)          *)
ThrArgs == {<<>>, <<<<1, 2, 0>>, <<1, 1, 0>>>>, <<<<5, 1, 0>>, <<-1, 1, 0>>, <<1, 1, 0>>>>,
            <<<<-1000000, 1, 0>>, <<3, 2, 0>>, <<1000000, 1, 0>>>>}
NbArgs  == {-1, 1, 2, 7, 100}
Args == {[fnr |-> a, fpr |-> b, thr |-> c, nb |-> d] :
           a \in FnrArgs, b \in FprArgs, c \in ThrArgs, d \in NbArgs}
UsefulArgs == {a \in Args : (a.fnr # <<>> \/ a.fpr # <<>> \/ a.thr # <<>>) => a.nb = 100}

VARIABLES obj, q
vars == <<obj, q>>
NoQ == [args |-> [fnr |-> <<>>, fpr |-> <<>>, thr |-> <<>>, nb |-> 0], x |-> "none", sup |-> <<>>]
Init == obj \in Objects /\ q = NoQ
Roc(a, x) == /\ q = NoQ /\ UNCHANGED obj
             /\ q' = [args |-> a, x |-> x, sup |-> Support(obj, a.fnr, a.fpr, a.thr, a.nb, x)]
Next == \E a \in UsefulArgs, x \in XAxes : Roc(a, x)
Spec == Init /\ [][Next]_vars

Asked == q # NoQ
Nothing == q.args.fnr = <<>> /\ q.args.fpr = <<>> /\ q.args.thr = <<>>
(* the x-axis metric never decreases along the curve                            *)
InvMonotone == Asked => \A i \in 1..(Len(q.sup) - 1) :
   RLe(AxisOf(RatesAt(obj, q.sup[i]), CanonAxis(q.x)), AxisOf(RatesAt(obj, q.sup[i + 1]), CanonAxis(q.x)))
(* every supplied threshold and the threshold of every supplied rate is on it   *)
InvContains == Asked =>
   /\ \A i \in DOMAIN q.args.thr : \E j \in DOMAIN q.sup : T3Eq(q.sup[j], q.args.thr[i])
   /\ \A i \in DOMAIN q.args.fnr : \E j \in DOMAIN q.sup : T3Eq(q.sup[j], ThrAt(obj, "fnr", q.args.fnr[i]))
   /\ \A i \in DOMAIN q.args.fpr : \E j \in DOMAIN q.sup : T3Eq(q.sup[j], ThrAt(obj, "fpr", q.args.fpr[i]))
InvCounts == (Asked /\ Nothing) =>
   Len(q.sup) = IF q.args.nb = -1 THEN Len(obj.pos) + Len(obj.neg) ELSE q.args.nb
InvSupplied == (Asked /\ ~Nothing) =>
   Len(q.sup) = Len(q.args.thr) + Len(q.args.fnr) + Len(q.args.fpr)

EmitCases ==
  TLCGet("stats").distinct >= 0 /\
  JsonSerialize(IOEnv.CASES_FILE, [k |-> K, cases |-> SetToSeq(Objects), args |-> SetToSeq(UsefulArgs)])
=============================================================================
