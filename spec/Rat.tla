------------------------------- MODULE Rat -------------------------------
(* Exact rational arithmetic on pairs <<n, d>> with d > 0.                 *)
(* Everything numeric in the specification that is not an integer is one   *)
(* of these (targets k/(q*N), interpolation weights, interpolated          *)
(* thresholds, rates, areas, quantile positions).  TLC integers are 32 bit *)
(* and overflow is a run-time error (never a silent wrap), so results are  *)
(* normalised after every operation to keep denominators small.            *)
EXTENDS Integers

Abs(x) == IF x < 0 THEN -x ELSE x

(* total on all integers (a recorded "not a small rational" marker <<0, -1>> has a negative          *)
(* denominator; TLC's % insists on a positive modulus)                                              *)
RECURSIVE GCD(_, _)
GCD(a, b) == IF b = 0 THEN Abs(a) ELSE GCD(Abs(b), Abs(a) % Abs(b))

RNorm(r) == LET g == GCD(Abs(r[1]), r[2]) IN
            IF g = 0 THEN <<0, 1>> ELSE <<r[1] \div g, r[2] \div g>>

R(n, d)   == IF d < 0 THEN RNorm(<<-n, -d>>) ELSE RNorm(<<n, d>>)
RInt(n)   == <<n, 1>>
(* Addition and multiplication reduce by common factors BEFORE multiplying  *)
(* so that intermediate products stay far below 2^31.                       *)
RAdd(a, b) == LET g == GCD(a[2], b[2]) IN
              RNorm(<<a[1] * (b[2] \div g) + b[1] * (a[2] \div g), (a[2] \div g) * b[2]>>)
RSub(a, b) == LET g == GCD(a[2], b[2]) IN
              RNorm(<<a[1] * (b[2] \div g) - b[1] * (a[2] \div g), (a[2] \div g) * b[2]>>)
RMul(a, b) == LET g1 == GCD(Abs(a[1]), b[2])
                  g2 == GCD(Abs(b[1]), a[2])
                  h1 == IF g1 = 0 THEN 1 ELSE g1
                  h2 == IF g2 = 0 THEN 1 ELSE g2
              IN RNorm(<<(a[1] \div h1) * (b[1] \div h2), (a[2] \div h2) * (b[2] \div h1)>>)
RNeg(a)    == <<-a[1], a[2]>>
RDiv(a, b) == IF b[1] > 0 THEN RNorm(<<a[1] * b[2], a[2] * b[1]>>)
                          ELSE RNorm(<<-(a[1] * b[2]), -(a[2] * b[1])>>)
RLe(a, b) == a[1] * b[2] <= b[1] * a[2]
RLt(a, b) == a[1] * b[2] <  b[1] * a[2]
REq(a, b) == a[1] * b[2] =  b[1] * a[2]
RMin(a, b) == IF RLe(a, b) THEN a ELSE b
RMax(a, b) == IF RLe(a, b) THEN b ELSE a
RAbs(a)    == <<Abs(a[1]), a[2]>>
RIsInt(a)  == a[1] % a[2] = 0
(* floor / ceil towards -infinity / +infinity (TLA+ \div floors)           *)
RFloor(a) == a[1] \div a[2]
RCeil(a)  == -((-a[1]) \div a[2])
RZero == <<0, 1>>
ROne  == <<1, 1>>
RClip01(a) == RMax(RZero, RMin(ROne, a))
==========================================================================
