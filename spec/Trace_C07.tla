------------------------------ MODULE Trace_C07 ------------------------------
(* Judge for C07: recorded Scores.auc values (exact rationals) against the     *)
(* Mann-Whitney statistic, the exact step area, and the relations between axis *)
(* choices, all evaluated on the recorded values.                              *)
EXTENDS AUC, Json, IOUtils, TLCExt

Log == ndJsonDeserialize(IOEnv.TRACE_FILE)
VARIABLES l, store
vars == <<l, store>>
Report(e, fails) == \A c \in fails : PrintT(<<"FAILED", e.id, c>>)
Failing(S) == {p[1] : p \in {q \in S : ~q[2]}}
IsEvent(op) == l <= Len(Log) /\ Log[l].op = op /\ l' = l + 1
ObjOfRec(r) == Obj(r.pos, r.neg, r.ep, r.en, r.sc, r.ec)
Init == l = 1 /\ store = <<>>

TraceNew ==
  /\ IsEvent("New")
  /\ LET e == Log[l]
         a == e.args
         o == NewObj(a.p, a.n, a.ep, a.en, a.sc, a.ec, a.sorted)
     IN /\ store' = (e.h :> o) @@ store
        /\ Report(e, Failing({<<"C07.raised", e.exc = "">>,
                              <<"C07.new_state", e.exc # "" \/ ObjOfRec(e.post) = o>>}))

(* a query is <<lo_n, lo_d, hi_n, hi_d, xaxis, yaxis>>                        *)
Lo(q) == <<q[1], q[2]>>
Hi(q) == <<q[3], q[4]>>
TraceAUC ==
  /\ IsEvent("auc")
  /\ LET e == Log[l]
         o == store[e.h]
         n == Len(e.q)
         ok == e.exc = "" /\ Len(e.out) = n /\ \A i \in 1..n : e.out[i][2] > 0
         I == 1..n
         is(i, x, y) == e.q[i][5] = x /\ e.q[i][6] = y
         full(i) == Lo(e.q[i]) = RZero /\ Hi(e.q[i]) = ROne
         width(i) == RSub(Hi(e.q[i]), Lo(e.q[i]))
         notie == ~CrossTie(o)
     IN /\ UNCHANGED store
        /\ Report(e, Failing({
             <<"C07.raised", e.exc = "">>,
             <<"C07.value", e.exc # "" \/ ok>>,
             <<"C07.full_is_mann_whitney", ~ok \/ \A i \in I :
                  (is(i, "fpr", "tpr") /\ full(i)) => REq(e.out[i], MannWhitney(o))>>,
             <<"C07.partial_is_step_area", ~ok \/ ~notie \/ \A i \in I :
                  is(i, "fpr", "tpr") => REq(e.out[i], StepArea(o, Lo(e.q[i]), Hi(e.q[i])))>>,
             <<"C07.bounded", ~ok \/ ~notie \/ \A i \in I : RLe(e.out[i], width(i))>>,
             (* index tuples named by the driver; the judge checks that they really *)
             (* are windows (a,b), (b,c), (a,c) / complemented / mirrored pairs    *)
             <<"C07.additive", ~ok \/ ~notie \/ \A t \in DOMAIN e.add :
                  LET i == e.add[t][1]  j == e.add[t][2]  k == e.add[t][3] IN
                  (is(i, "fpr", "tpr") /\ is(j, "fpr", "tpr") /\ is(k, "fpr", "tpr")
                   /\ Hi(e.q[i]) = Lo(e.q[j]) /\ Lo(e.q[k]) = Lo(e.q[i]) /\ Hi(e.q[k]) = Hi(e.q[j]))
                    /\ REq(RAdd(e.out[i], e.out[j]), e.out[k])>>,
             <<"C07.y_complement", ~ok \/ ~notie \/ \A t \in DOMAIN e.comp :
                  LET i == e.comp[t][1]  j == e.comp[t][2] IN
                  (is(i, "fpr", "tpr") /\ is(j, "fpr", "fnr") /\ Lo(e.q[i]) = Lo(e.q[j])
                   /\ Hi(e.q[i]) = Hi(e.q[j])) /\ REq(e.out[j], RSub(width(i), e.out[i]))>>,
             <<"C07.x_mirror", ~ok \/ ~notie \/ \A t \in DOMAIN e.mirr :
                  LET i == e.mirr[t][1]  j == e.mirr[t][2] IN
                  (is(i, "fpr", "tpr") /\ is(j, "tnr", "tpr")
                   /\ Lo(e.q[j]) = RSub(ROne, Hi(e.q[i])) /\ Hi(e.q[j]) = RSub(ROne, Lo(e.q[i])))
                    /\ REq(e.out[j], e.out[i])>>,
             <<"C07.axis_exchange", ~ok \/ \A i \in I, j \in I :
                  (is(i, "fpr", "tpr") /\ full(i) /\ is(j, "tpr", "fpr") /\ full(j))
                    => REq(e.out[j], RSub(ROne, e.out[i]))>>,
             <<"DRIFT.auc_model", ~ok \/ \A i \in I :
                  REq(e.out[i], TrapezoidCoded(o, Lo(e.q[i]), Hi(e.q[i]), e.q[i][5], e.q[i][6]))>>}))

(* the same scored data with a HUGE number (>= 2^31, never seen by TLC) of easy samples on one  *)
(* side: x = (1 - auc) * (population of that side), which is independent of the huge count:    *)
(*   1 - AUC = (2 np nn - 2 wins - ties) / (2 (np + ep)(nn + en))                               *)
TraceAUCHuge ==
  /\ IsEvent("auc_huge")
  /\ LET e  == Log[l]
         o  == store[e.h]
         o0 == [o EXCEPT !.ep = 0, !.en = 0]
         loss == RMul(RSub(ROne, MannWhitney(o0)), RInt(Len(o.pos) * Len(o.neg)))
         want == IF e.side = "neg" THEN RDiv(loss, RInt(NPos(o))) ELSE RDiv(loss, RInt(NNeg(o)))
     IN /\ UNCHANGED store
        /\ Report(e, Failing({
             <<"C07.raised", e.exc = "">>,
             <<"C07.full_is_mann_whitney_with_huge_easy_counts",
                  e.exc # "" \/ (e.x[2] > 0 /\ REq(e.x, want))>>}))

(* history: the caller re-assigns the configuration attributes of a live object (as enum members  *)
(* or as the plain strings the label type compares equal to)                                      *)
TraceSetConfig ==
  /\ IsEvent("SetConfig")
  /\ LET e == Log[l]
         o == [store[e.h] EXCEPT !.sc = e.sc, !.ec = e.ec]
     IN /\ store' = (e.h :> o) @@ store
        /\ Report(e, Failing({<<"C07.raised", e.exc = "">>,
                              <<"C07.state_after_assigning_configuration", e.exc # "" \/ ObjOfRec(e.post) = o>>}))

(* history: the caller re-binds one of the (sorted) score arrays of a live object               *)
TraceSetScores ==
  /\ IsEvent("SetScores")
  /\ LET e == Log[l]
         o == IF e.cls = "pos" THEN [store[e.h] EXCEPT !.pos = e.seq] ELSE [store[e.h] EXCEPT !.neg = e.seq]
     IN /\ store' = (e.h :> o) @@ store
        /\ Report(e, Failing({<<"C07.raised", e.exc = "">>,
                              <<"C07.state_after_rebinding_scores", e.exc # "" \/ ObjOfRec(e.post) = o>>}))

(* history: copy.copy / copy.deepcopy / a pickle round trip of a live object gives an equal object *)
TraceCopy ==
  /\ IsEvent("Copy")
  /\ LET e == Log[l]
         o == store[e.h]
     IN /\ store' = (e.h2 :> o) @@ store
        /\ Report(e, Failing({<<"C07.raised", e.exc = "">>,
                              <<"C07.copy_equals_source", e.exc # "" \/ ObjOfRec(e.post) = o>>}))

Next == TraceNew \/ TraceAUC \/ TraceAUCHuge \/ TraceSetConfig \/ TraceSetScores \/ TraceCopy
Spec == Init /\ [][Next]_vars
AllConsumed == TLCGet("stats").diameter - 1 = Len(Log)
=============================================================================
