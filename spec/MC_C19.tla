------------------------------- MODULE MC_C19 -------------------------------
EXTENDS Fraud, TLC, Json, IOUtils, SequencesExt
CONSTANTS MaxG, MaxF
ArgSpace == [g : AllSeqs(FraudVals, MaxG), f : AllSeqs(FraudVals, MaxF), eg : {0, 2}, ef : {0, 1}, sc : DocLabels]
VARIABLES args, res
vars == <<args, res>>
Init == args \in ArgSpace /\ res = [raised |-> "pending", obj |-> Obj(<<>>, <<>>, 0, 0, "pos", "pos")]
Construct == res.raised = "pending" /\ res' = FraudNew(args) /\ UNCHANGED args
Next == Construct
Spec == Init /\ [][Next]_vars
Built == res.raised = ""
InvRaisesIffOutside == res.raised # "pending" =>
   ((res.raised = "ValueError") <=> (\E i \in DOMAIN args.g : ~InUnitInterval(args.g[i]))
                                     \/ (\E i \in DOMAIN args.f : ~InUnitInterval(args.f[i])))
InvView == Built => /\ res.obj.ec = "pos" /\ res.obj.sc = DocToBinary(args.sc)
                    /\ res.obj.pos = SortAsc(args.g) /\ res.obj.neg = SortAsc(args.f)
                    /\ res.obj.ep = args.eg /\ res.obj.en = args.ef
InvLabels == \A d \in DocLabels : BinaryToDoc(DocToBinary(d)) = d
EmitCases == TLCGet("stats").distinct >= 0 /\
  JsonSerialize(IOEnv.CASES_FILE, [mid |-> Mid, cases |-> SetToSeq(ArgSpace)])
=============================================================================
