------------------------------- MODULE MC_C01 -------------------------------
(* Bounded model for C01: constructor (any argument order, is_sorted fast   *)
(* path), swap, and the confusion-matrix query at every threshold position. *)
(* States are objects; the query grid is quantified inside the invariants   *)
(* (DESIGN 3.7).  TLC also emits the argument space as JSON for the driver, *)
(* so the specification is the single source of the cases replayed into the *)
(* implementation.                                                          *)
EXTENDS ScoresObj, Json, IOUtils, SequencesExt

CONSTANTS K,        \* score values 0..K-1
          MaxP,     \* max number of scored positives
          MaxN,     \* max number of scored negatives
          EasyPairs \* set of <<ep, en>>

EasyQuick    == {<<0, 0>>, <<2, 1>>}
EasyThorough == {<<0, 0>>, <<2, 1>>, <<0, 3>>, <<1, 0>>}

V  == 0..(K - 1)
T2 == (-1)..(2 * K - 1)          \* every threshold position in doubled coordinates

Configs == {<<sc, ec>> : sc \in Labels, ec \in Labels}

(* Constructor arguments: sequences in ANY order; the is_sorted=True fast   *)
(* path is only legal on ascending input.                                   *)
ArgSpace ==
  {a \in [p : AllSeqs(V, MaxP), n : AllSeqs(V, MaxN), ep : {e[1] : e \in EasyPairs},
          en : {e[2] : e \in EasyPairs}, sc : Labels, ec : Labels, sorted : BOOLEAN] :
     /\ <<a.ep, a.en>> \in EasyPairs
     /\ a.sorted => (IsAsc(a.p) /\ IsAsc(a.n))}

VARIABLES st, args, obj, gen
vars == <<st, args, obj, gen>>

Null == [pos |-> <<>>, neg |-> <<>>, ep |-> 0, en |-> 0, sc |-> "pos", ec |-> "pos"]

Init == /\ st = "args" /\ args \in ArgSpace /\ obj = Null /\ gen = 0

New == /\ st = "args"
       /\ obj' = NewObj(args.p, args.n, args.ep, args.en, args.sc, args.ec, args.sorted)
       /\ st' = "live" /\ UNCHANGED <<args, gen>>

Swap == /\ st = "live" /\ gen < 2
        /\ obj' = SwapObj(obj) /\ gen' = gen + 1 /\ UNCHANGED <<st, args>>

Next == New \/ Swap
Spec == Init /\ [][Next]_vars

Live == st = "live"

(* --- invariants ---------------------------------------------------------*)
(* the constructor keeps the scores ascending (so binary search is valid)   *)
InvSorted == Live => IsAsc(obj.pos) /\ IsAsc(obj.neg)
(* binary-search technique == documented counting rule, at every threshold  *)
InvCodedIsCount == Live => \A t \in T2 : CodedCM(obj, t) = CountCM(obj, t)
(* class totals never depend on the threshold                               *)
InvTotals == Live => \A t \in T2 :
   LET c == CountCM(obj, t) IN /\ TP(c) + FN(c) = NPos(obj)
                               /\ FP(c) + TN(c) = NNeg(obj)
(* per-sample membership summed over samples = matrix minus easy samples    *)
PointSum(o, t2) ==
  LET cell(isPos, v) == PointCell(isPos, o.sc, o.ec, v, t2)
      cnt(k) == Cardinality({i \in DOMAIN o.pos : cell(TRUE, o.pos[i]) = k})
              + Cardinality({i \in DOMAIN o.neg : cell(FALSE, o.neg[i]) = k})
  IN <<cnt(1), cnt(2), cnt(3), cnt(4)>>
InvPointwise == Live => \A t \in T2 :
   LET c == CountCM(obj, t)  s == PointSum(obj, t) IN
     s = <<TP(c) - obj.ep, FN(c), FP(c), TN(c) - obj.en>>
(* swap exchanges the classes: the matrix of the swapped object is the      *)
(* original one with the diagonal and the off-diagonal exchanged            *)
InvSwap == Live => \A t \in T2 :
   LET c == CountCM(obj, t)  s == CountCM(SwapObj(obj), t) IN
     s = <<TN(c), FP(c), FN(c), TP(c)>>
(* monotone in the threshold (direction given by score_class)               *)
InvMonotone == Live => \A t \in T2 \ {2 * K - 1} :
   LET a == CountCM(obj, t)  b == CountCM(obj, t + 1) IN
     IF obj.sc = "pos" THEN TP(b) <= TP(a) /\ FP(b) <= FP(a)
                       ELSE TP(b) >= TP(a) /\ FP(b) >= FP(a)

(* --- case emission for the spec->code leg --------------------------------*)
EmitCases ==
  TLCGet("stats").distinct >= 0 /\ JsonSerialize(IOEnv.CASES_FILE,
     [k |-> K, t2 |-> SetToSeq(T2), cases |-> SetToSeq(ArgSpace)])
=============================================================================
