------------------------------- MODULE MC_C17 -------------------------------
(* Bounded model for C17: every small sampled curve (x non-decreasing with      *)
(* equal y on duplicates) and every target on a half-integer grid inside and     *)
(* outside the range of y.                                                        *)
EXTENDS InvertPL, TLC, Json, IOUtils, SequencesExt

CONSTANTS MaxLen, XMax, YMax
Targets == {R(k, 2) : k \in (-2)..(2 * YMax + 2)}

Curves == UNION {
  {c \in [x : [1..n -> 0..XMax], y : [1..n -> 0..YMax]] :
      /\ \A i \in 1..(n - 1) : c.x[i] <= c.x[i + 1]
      /\ \A i \in 1..(n - 1) : c.x[i] = c.x[i + 1] => c.y[i] = c.y[i + 1]} : n \in 2..MaxLen}

VARIABLES curve, tgt
vars == <<curve, tgt>>
Init == curve \in Curves /\ tgt = <<>>
Ask(t) == tgt = <<>> /\ tgt' = t /\ UNCHANGED curve
Next == \E t \in Targets : Ask(t)
Spec == Init /\ [][Next]_vars

RX == [i \in DOMAIN curve.x |-> RInt(curve.x[i])]
RY == [i \in DOMAIN curve.y |-> RInt(curve.y[i])]
InvSolutions == tgt # <<>> => SolutionsOK(RX, RY, tgt, Coded(RX, RY, tgt))

EmitCases ==
  TLCGet("stats").distinct >= 0 /\
  JsonSerialize(IOEnv.CASES_FILE, [targets |-> SetToSeq(Targets), cases |-> SetToSeq(Curves)])
=============================================================================
