------------------------------ MODULE Trace_C14 ------------------------------
(* Judge for C14.  The library's own extension points are the hooks: a         *)
(* recording sampler (custom sampler, or a subclass overriding                  *)
(* bootstrap_sample for the built-in samplers) emits Sample events, a wrapped   *)
(* metric callable emits MetricCall events, the public call emits Start and     *)
(* Return.  The judge rebuilds the loop state (BootLoop's variables produced /  *)
(* rows) from the events and checks at Return that the returned rows are the    *)
(* metric of exactly the samples produced, in order, and that the interval is   *)
(* the documented formula on those rows with the metric of the source as point  *)
(* estimate.  The order of metric calls relative to samples (probe first,       *)
(* estimate last, as BootLoop models the code) is conformance only: DRIFT.      *)
EXTENDS ScoresObj, BootCI, TLC, Json, IOUtils, TLCExt

Log == ndJsonDeserialize(IOEnv.TRACE_FILE)
VARIABLES l, run
vars == <<l, run>>
Report(e, fails) == \A c \in fails : PrintT(<<"FAILED", e.id, c>>)
Failing(S) == {p[1] : p \in {q \in S : ~q[2]}}
IsEvent(op) == l <= Len(Log) /\ Log[l].op = op /\ l' = l + 1
ObjOfRec(r) == Obj(r.pos, r.neg, r.ep, r.en, r.sc, r.ec)
NoRun == [active |-> FALSE]
Init == l = 1 /\ run = NoRun

(* metric menu.  Every metric value is a SEQUENCE of components, each <<n, d>>    *)
(* (<<0, 0>> = NaN): integer counts, exact rates, or the two-component metric      *)
(* "vec" = <<FP, TP if anything is predicted positive else NaN>> (array-valued,    *)
(* NaN in one component only).                                                      *)
MetricVal(name, o, t2) ==
  LET c == CountCM(o, t2) IN
  CASE name = "fp_count" -> << <<FP(c), 1>> >>
    [] name = "fn_count" -> << <<FN(c), 1>> >>
    [] name = "vec" -> << <<FP(c), 1>>, IF TP(c) + FP(c) = 0 THEN <<0, 0>> ELSE <<TP(c), 1>> >>
    (* metrics a user subclass defines / overrides (percent), resolved by NAME on the source's class *)
    [] name \in {"pct_fpr", "pct_fnr"} ->
         LET r == MetricRate(IF name = "pct_fpr" THEN "fpr" ELSE "fnr", c)
         IN << IF r = NaN THEN <<0, 0>> ELSE RMul(RInt(100), r) >>
    [] OTHER -> LET r == MetricRate(name, c) IN << IF r = NaN THEN <<0, 0>> ELSE r >>
SameQ1(a, b) == IF a[2] = 0 \/ b[2] = 0 THEN a[2] = 0 /\ b[2] = 0 ELSE REq(a, b)
SameVal(a, b) == Len(a) = Len(b) /\ \A k \in DOMAIN a : SameQ1(a[k], b[k])

TraceStart ==
  /\ IsEvent("Start")
  /\ LET e == Log[l] IN
       run' = [active |-> TRUE, call |-> e.call, n |-> e.n, src |-> ObjOfRec(e.src), metric |-> e.metric,
               t2 |-> e.t2, method |-> e.method, alpha |-> e.alpha,
               produced |-> <<>>, calls |-> <<>>]
TraceSample ==
  /\ IsEvent("Sample") /\ run.active
  /\ run' = [run EXCEPT !.produced = Append(@, ObjOfRec(Log[l].obj))]
TraceMetricCall ==
  /\ IsEvent("MetricCall") /\ run.active
  /\ run' = [run EXCEPT !.calls = Append(@, [obj |-> ObjOfRec(Log[l].obj), after |-> Len(run.produced)])]

(* the order BootLoop prescribes: probe on the source, then one call per fresh  *)
(* sample, then (bootstrap_ci) the estimate on the source                       *)
OrderAsModelled(r) ==
  LET k == Len(r.calls)
      want == IF r.call = "ci" THEN r.n + 2 ELSE r.n + 1
  IN k = 0 \/
     /\ k = want
     /\ r.calls[1].obj = r.src /\ r.calls[1].after = 0
     /\ \A i \in 1..r.n : r.calls[i + 1].obj = r.produced[i] /\ r.calls[i + 1].after = i
     /\ r.call = "ci" => (r.calls[k].obj = r.src /\ r.calls[k].after = r.n)

TraceReturn ==
  /\ IsEvent("Return") /\ run.active
  /\ run' = NoRun
  /\ LET e == Log[l]
         r == run
         np == Len(r.produced)
         ok == e.exc = ""
         want(i) == MetricVal(r.metric, r.produced[i], r.t2)
         ints == r.metric \in {"fp_count", "fn_count", "vec"}
         nc == Len(MetricVal(r.metric, r.src, r.t2))
         (* replicates of component k (NaN -> NaNTok, ignored by the formulas)       *)
         theta(k) == [i \in 1..np |-> IF want(i)[k][2] = 0 THEN NaNTok ELSE want(i)[k][1]]
         est(k) == LET v == MetricVal(r.metric, r.src, r.t2)[k] IN IF v[2] = 0 THEN NaNTok ELSE v[1]
         identity == \A i \in 1..np : r.produced[i] = r.src
         defined(k) == NFinite(theta(k)) > 0 /\ est(k) # NaNTok
         tol(k) == LET vs == SortedFinite(theta(k)) IN 200 * (vs[Len(vs)] - vs[1]) + 5
         model(k) == IF r.method = "quantile"
                     THEN LET q == QuantileCI(theta(k), r.alpha) IN
                          <<(q[1][1] * FS) \div q[1][2], (q[2][1] * FS) \div q[2][2]>>
                     ELSE CorrectedCI6(theta(k), est(k), r.alpha, r.method)
     IN Report(e, Failing({
          <<"C14.raised", ok>>,
          <<"C14.one_sample_per_row", ~ok \/ np = r.n>>,
          <<"C14.nb_rows", ~ok \/ r.call # "metric" \/ (Len(e.rows) = r.n /\ e.shape_ok)>>,
          <<"C14.row_is_metric_of_jth_sample", ~ok \/ r.call # "metric" \/ np # r.n \/ Len(e.rows) # np \/
               \A i \in 1..np : SameVal(e.rows[i], want(i))>>,
          <<"C14.ci_is_formula_on_replicates", ~ok \/ r.call # "ci" \/ ~ints \/ np # r.n \/ np = 0 \/
               (Len(e.ci) = nc /\ \A k \in 1..nc : defined(k) =>
                   (Close(e.ci[k][1], model(k)[1], tol(k)) /\ Close(e.ci[k][2], model(k)[2], tol(k))))>>,
          <<"C14.identity_sampler_collapses", ~ok \/ r.call # "ci" \/ ~ints \/ ~identity \/
               (Len(e.ci) = nc /\ \A k \in 1..nc : est(k) # NaNTok =>
                   (Close(e.ci[k][1], est(k) * FS, 1) /\ Close(e.ci[k][2], est(k) * FS, 1)))>>,
          <<"C14.group_rows_are_metric_of_samples", ~ok \/ e.group_rows_ok>>,
          <<"C14.reproducible_for_fixed_seed", ~ok \/ e.same_seed_same_result>>,
          <<"C14.kwargs_forwarded", ~ok \/ e.kwargs_seen>>,
          <<"DRIFT.loop_order", ~ok \/ np # r.n \/ OrderAsModelled(r)>>}))

Next == TraceStart \/ TraceSample \/ TraceMetricCall \/ TraceReturn
Spec == Init /\ [][Next]_vars
AllConsumed == TLCGet("stats").diameter - 1 = Len(Log)
=============================================================================
