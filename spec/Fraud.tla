-------------------------------- MODULE Fraud --------------------------------
(* applications/doc_fraud.py: FraudScores is a genuine/fraud VIEW of Scores:     *)
(* pos = genuines, neg = frauds, score_class translated, equal_class = "pos";    *)
(* construction is refused (ValueError) exactly when some score lies outside     *)
(* [0, 1].  Abstract score values: -1 (below 0), 0 (= 0.0), 1..Mid (inside),      *)
(* Mid+1 (= 1.0), Mid+2 (above 1).                                                *)
EXTENDS ScoresObj

CONSTANT Mid
FraudVals == (-1)..(Mid + 2)
InUnitInterval(v) == v >= 0 /\ v <= Mid + 1
DocLabels == {"genuine", "fraud"}
DocToBinary(d) == IF d = "genuine" THEN "pos" ELSE "neg"
BinaryToDoc(b) == IF b = "pos" THEN "genuine" ELSE "fraud"

Valid(a) == (\A i \in DOMAIN a.g : InUnitInterval(a.g[i])) /\ (\A i \in DOMAIN a.f : InUnitInterval(a.f[i]))
(* the refinement mapping: the Scores object a FraudScores object must behave as *)
ViewOf(a) == NewObj(a.g, a.f, a.eg, a.ef, DocToBinary(a.sc), "pos", FALSE)
FraudNew(a) == IF Valid(a) THEN [raised |-> "", obj |-> ViewOf(a)]
               ELSE [raised |-> "ValueError", obj |-> Obj(<<>>, <<>>, 0, 0, "pos", "pos")]
=============================================================================
