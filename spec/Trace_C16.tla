------------------------------ MODULE Trace_C16 ------------------------------
(* Judge for C16: curves with confidence bands from roc_with_ci and the three   *)
(* experimental band functions.  Bands are fixed point (1e-6).                  *)
EXTENDS ROC, TLC, Json, IOUtils, TLCExt

Log == ndJsonDeserialize(IOEnv.TRACE_FILE)
VARIABLES l, store
vars == <<l, store>>
Report(e, fails, dev) == \A c \in fails : PrintT(<<"FAILED", e.id, c, IF c = "C16.accepts_documented_arguments" THEN dev ELSE "">>)
Failing(S) == {p[1] : p \in {q \in S : ~q[2]}}
IsEvent(op) == l <= Len(Log) /\ Log[l].op = op /\ l' = l + 1
ObjOfRec(r) == Obj(r.pos, r.neg, r.ep, r.en, r.sc, r.ec)
Init == l = 1 /\ store = <<>>

TraceNew ==
  /\ IsEvent("New")
  /\ LET e == Log[l]
         a == e.args
         o == NewObj(a.p, a.n, a.ep, a.en, a.sc, a.ec, a.sorted)
     IN /\ store' = (e.h :> o) @@ store
        /\ Report(e, Failing({<<"C16.raised", e.exc = "">>}), "")

(* Known finding (known_findings.json): fixed_width_band_ci cannot work on a     *)
(* support of exactly two points - the end-point reset of the displaced curve     *)
(* overwrites both of them.  Recognised by call site + support size, nothing else. *)
DevKey(e, o) ==
  IF /\ e.fn = "fixed_width_band_ci"
     /\ Len(e.args.fnr) = 0 /\ Len(e.args.fpr) = 0 /\ Len(e.args.thr) = 0
     /\ (e.args.nb = 2 \/ (e.args.nb = -1 /\ Len(o.pos) + Len(o.neg) = 2))
     /\ e.exc = "ValueError: Could not initialise search for displacement."
  THEN "Dev_FWB_two_point_support" ELSE ""

Band(b) == [j \in DOMAIN b |-> <<b[j][1], b[j][2]>>]
TraceBand ==
  /\ IsEvent("band")
  /\ LET e == Log[l]
         o == store[e.h]
         r == e.out
         n == Len(r.cm)
         ok == e.exc = ""
         lens == ok /\ Len(r.fnr) = n /\ Len(r.fpr) = n /\ Len(r.fnr_ci) = n /\ Len(r.fpr_ci) = n /\ r.shape_ok
         fn == [j \in 1..n |-> r.cm[j][2]]
         fp == [j \in 1..n |-> r.cm[j][3]]
         cf == ClosedFormBands(fn, fp, NPos(o), NNeg(o), r.u, r.w, e.alpha)
         near(x, y) == Close(x[1], y[1], 3) /\ Close(x[2], y[2], 3)
     IN /\ UNCHANGED store
        /\ Report(e, Failing({
             <<"C16.accepts_documented_arguments", ok>>,
             <<"C16.band_shapes", ~ok \/ lens>>,
             (* a query: neither the object nor the arrays the caller passed in are modified      *)
             <<"C16.inputs_untouched", ~ok \/ r.inputs_untouched>>,
             <<"C16.rates_match_thresholds", ~lens \/ \A j \in 1..n :
                  /\ REq(r.fnr[j], R(fn[j], NPos(o))) /\ REq(r.fpr[j], R(fp[j], NNeg(o)))>>,
             <<"C16.bands_nan_free", ~lens \/ r.nan_free>>,
             <<"C16.bands_ordered", ~lens \/ ~r.nan_free \/ \A j \in 1..n :
                  r.fnr_ci[j][1] <= r.fnr_ci[j][2] /\ r.fpr_ci[j][1] <= r.fpr_ci[j][2]>>,
             <<"C16.bands_within_unit_interval", ~lens \/ ~r.nan_free \/ e.fn # "roc_with_ci" \/ \A j \in 1..n :
                  /\ 0 <= r.fnr_ci[j][1] /\ r.fnr_ci[j][2] <= FS /\ 0 <= r.fpr_ci[j][1] /\ r.fpr_ci[j][2] <= FS>>,
             (* beyond the listed property: the derived interval views of a curve are the mirrored       *)
             (* complements / aliases of its FNR / FPR bands                                             *)
             <<"EXT.interval_views_are_complements_and_aliases", ~lens \/ ~r.nan_free \/
                  LET V == r.views_ci
                      mirror(b, w) == Len(w) = n /\ \A j \in 1..n :
                          Close(w[j][1], FS - b[j][2], 1) /\ Close(w[j][2], FS - b[j][1], 1)
                      alias(b, w) == Len(w) = n /\ \A j \in 1..n : w[j][1] = b[j][1] /\ w[j][2] = b[j][2]
                  IN /\ mirror(r.fnr_ci, V.tpr_ci) /\ mirror(r.fpr_ci, V.tnr_ci)
                     /\ alias(r.fnr_ci, V.frr_ci) /\ alias(r.fpr_ci, V.far_ci)
                     /\ alias(V.tpr_ci, V.tar_ci) /\ alias(V.tnr_ci, V.trr_ci)>>,
             (* a scripted, non-identity sampler (stored samples handed out in turn): the bands are the     *)
             (* envelope of the rule-of-three-corrected pointwise intervals, which are the interval formula *)
             (* (C13) on the replicates with the rates of the ORIGINAL object as point estimates            *)
             <<"C16.bands_are_envelope_of_pointwise_intervals", ~lens \/ ~r.nan_free \/ e.fn # "roc_with_ci" \/
                  e.sampler # "scripted" \/ ~("boot_fnr" \in DOMAIN r) \/ Len(r.boot_fnr) # n \/
                  LET pw == PointwiseCI(fn, fp, NPos(o), NNeg(o), r.boot_fnr, r.boot_fpr, e.alpha)
                  IN /\ EnvelopeOK(r.fnr6, pw.fnr, pw.fpr, Band(r.fpr_ci), 3)
                     /\ EnvelopeOK(r.fpr6, pw.fpr, pw.fnr, Band(r.fnr_ci), 3)>>,
             <<"C16.identity_sampler_closed_form", ~lens \/ ~r.nan_free \/ e.fn # "roc_with_ci" \/ ~e.identity \/
                  Len(r.u) # n \/ Len(r.w) # n \/
                  \A j \in 1..n : near(Band(r.fnr_ci)[j], cf.fnr[j]) /\ near(Band(r.fpr_ci)[j], cf.fpr[j])>>}),
             DevKey(e, o))

(* rule of three on LARGE classes (n = 700 .. 1e6, mostly easy samples), a one-point curve at a     *)
(* threshold beyond every score: the band of the rate that is exactly 0 (1) is [0, 1 - alpha^(1/n)] *)
(* ([alpha^(1/n), 1]).  Recorded in units of 1/n: wn6 = round(1e6 * n * width).                     *)
TraceBandBig ==
  /\ IsEvent("band_big") /\ UNCHANGED store
  /\ LET e == Log[l]
         want(n) == Tables.rootw6[ToString(e.alpha)][ToString(n)]
     IN Report(e, Failing({
          <<"C16.accepts_documented_arguments", e.exc = "">>,
          <<"C16.rule_of_three_on_large_classes", e.exc # "" \/
               (/\ Close(e.wn6_zero_side, want(e.n_zero), 3) /\ e.zero_side_starts_at_zero
                /\ Close(e.wn6_one_side, want(e.n_one), 3) /\ e.one_side_ends_at_one)>>}), "")

Next == TraceNew \/ TraceBand \/ TraceBandBig
Spec == Init /\ [][Next]_vars
AllConsumed == TLCGet("stats").diameter - 1 = Len(Log)
=============================================================================
