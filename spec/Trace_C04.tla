------------------------------ MODULE Trace_C04 ------------------------------
(* Judge for C04.  One event = one 2x2 matrix evaluated by the real code in   *)
(* one variant (scaling, dtype, stacking shape, module function or            *)
(* ConfusionMatrix method).  Rates are recorded as exact rationals (<<0,0>>   *)
(* = NaN), interval limits as fixed point.                                    *)
EXTENDS BinaryCM, Fixed, FiniteSets, TLCExt

Log == ndJsonDeserialize(IOEnv.TRACE_FILE)
VARIABLES l
vars == <<l>>
Report(e, fails) == \A c \in fails : PrintT(<<"FAILED", e.id, c>>)
Failing(S) == {p[1] : p \in {q \in S : ~q[2]}}
IsEvent(op) == l <= Len(Log) /\ Log[l].op = op /\ l' = l + 1
Init == l = 1

AllRates == RateNames \cup {"tar", "frr", "trr", "far", "acceptance_rate", "rejection_rate"}
CIRates == {"tpr", "tnr", "fpr", "fnr"}
CINames == CIRates \cup {"tar", "trr", "far", "frr"}

P6(k, n) == (k * FS) \div n
P9(k, n) == ((k * FS) \div n) * 1000 + (((k * FS) % n) * 1000) \div n
(* significance levels are table keys (strings), in increasing order                 *)
AlphaOrder == <<"1e-15", "1e-12", "1e-9", "10", "50", "100", "500">>
Rank(a) == CHOOSE i \in DOMAIN AlphaOrder : AlphaOrder[i] = a
Half6(k2, n2, a) == FMul(Tables.z6[a], SE6(k2, n2))

(* expected limits for one rate / alpha in the units of the variant           *)
CIOk(e, name, a) ==
  LET m  == e.m
      r  == AliasOf(name)
      k  == RateNum(r, m)
      n  == RateDen(r, m)
      c  == e.ci[name][a]          \* <<lo, hi, isnan, mid, half>>
      k2 == IF e.scale = "half" THEN k ELSE 2 * k
      n2 == IF e.scale = "half" THEN n ELSE 2 * n
      h6 == Half6(k2, n2, a)
  IN IF n = 0 THEN c[3] = 1
     ELSE /\ c[3] = 0
          /\ c[5] >= 0 /\ c[5] <= (IF e.scale = "big" THEN 8000000 ELSE 20000000)   \* sane (guards overflow)
          /\ IF e.scale = "big"
             THEN /\ Close(c[4], P9(k, n), 3)                                  \* centred on the rate
                  /\ Close(c[5] * 256, h6 * 250, 500 + h6 \div 800)           \* half-width / 2^10
             ELSE /\ Close(c[4], P6(k, n), 2)
                  /\ Close(c[5], h6, 3 + Tables.z6[a] \div FS)      \* table rounding scales with z

TraceMetrics ==
  /\ IsEvent("metrics")
  /\ LET e == Log[l]
         m == e.m
         okv == e.exc = "" /\ e.shape_ok
         A == {AlphaOrder[i] : i \in DOMAIN AlphaOrder} \cap DOMAIN e.ci["tpr"]
         hasCI == e.scale # "tiny"
         lim(name, a) == e.ci[name][a]
         (* a recorded rate is <<n, d>>, d > 0; <<0, 0>> = NaN; d < 0 = "not a small rational" (never right) *)
         ratesOK == \A r \in AllRates : e.rates[r][2] >= 0
     IN Report(e, Failing({
          <<"C04.raised", e.exc = "">>,
          <<"C04.shape", e.exc # "" \/ e.shape_ok>>,
          (* definitions                                                      *)
          <<"C04.counts", ~okv \/ e.scale # "1" \/
               e.basic = <<bTP(m), bFN(m), bFP(m), bTN(m), bP(m), bN(m), bTOP(m), bTON(m), bPOP(m)>>>>,
          <<"C04.rate_definition", ~okv \/ (ratesOK /\ \A r \in AllRates : SameQ(e.rates[r], RateOf(AliasOf(r), m)))>>,
          (* relations on the recorded values themselves                      *)
          <<"C04.complements", ~okv \/ ~ratesOK \/ \A r \in RateNames :
               SumsToOne(e.rates[r], e.rates[Complement(r)])>>,
          <<"C04.range", ~okv \/ ~ratesOK \/ \A r \in AllRates : InUnit(e.rates[r])>>,
          <<"C04.nan_locus", ~okv \/ \A r \in AllRates :
               IsNaN(e.rates[r]) <=> RateDen(AliasOf(r), m) = 0>>,
          <<"C04.ci_formula", ~okv \/ ~hasCI \/ \A name \in CINames : \A a \in A : CIOk(e, name, a)>>,
          <<"C04.ci_nan_iff_rate_nan", ~okv \/ ~hasCI \/ \A name \in CINames : \A a \in A :
               (lim(name, a)[3] = 1) <=> IsNaN(e.rates[name])>>,
          <<"C04.ci_nested", ~okv \/ ~hasCI \/ \A name \in CINames : \A a \in A, b \in A :
               (Rank(a) < Rank(b) /\ lim(name, a)[3] = 0 /\ lim(name, b)[3] = 0) =>
                  lim(name, a)[1] <= lim(name, b)[1] + 1 /\ lim(name, b)[2] <= lim(name, a)[2] + 1>>,
          <<"C04.ci_mirror", ~okv \/ ~hasCI \/ \A name \in CIRates : \A a \in A :
               LET x == lim(name, a)  y == lim(Complement(name), a)
                   one == IF e.scale = "big" THEN 1000 * FS ELSE FS
                   sane(c) == c[1] > -1050000000 /\ c[2] < 1050000000 /\ c[1] <= c[2]
               IN (x[3] = 0 /\ y[3] = 0) =>
                    /\ sane(x) /\ sane(y)
                    /\ Close(x[1] + y[2], one, 3) /\ Close(x[2] + y[1], one, 3)>>}))

Next == TraceMetrics
Spec == Init /\ [][Next]_vars
AllConsumed == TLCGet("stats").diameter - 1 = Len(Log)
=============================================================================
