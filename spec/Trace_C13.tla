------------------------------ MODULE Trace_C13 ------------------------------
(* Judge for C13.  One event = utils.bootstrap_ci on one replicate vector in   *)
(* one method, for several alphas, together with the results on transformed    *)
(* inputs (NaNs inserted, permuted, affine image, as one column of a stacked   *)
(* call).  Limits are fixed point (value * 1e6); 'quantile' additionally as    *)
(* exact rationals.                                                            *)
EXTENDS BootCI, TLC, Json, IOUtils, TLCExt

Log == ndJsonDeserialize(IOEnv.TRACE_FILE)
VARIABLES l
vars == <<l>>
Report(e, fails) == \A c \in fails : PrintT(<<"FAILED", e.id, c>>)
Failing(S) == {p[1] : p \in {q \in S : ~q[2]}}
IsEvent(op) == l <= Len(Log) /\ Log[l].op = op /\ l' = l + 1
Init == l = 1

K(a) == ToString(a)
TraceCI ==
  /\ IsEvent("bootci")
  /\ LET e   == Log[l]
         th  == e.theta
         est == e.est
         m   == e.method
         A   == {e.alphas[i] : i \in DOMAIN e.alphas}
         vs  == SortedFinite(th)
         n   == Len(vs)
         rng == vs[n] - vs[1]
         tol == 200 * rng + 5                    \* 2e-4 * range (table precision)
         ok  == e.exc = "" /\ e.shape_ok
         o(a) == e.out[K(a)]                     \* <<lo6, hi6>>
         pf(a) == m # "bca" \/ PoleFree(th, est, a)
         same(x, y, t) == Close(x[1], y[1], t) /\ Close(x[2], y[2], t)
         model(a) == CorrectedCI6(th, est, a, m)
     IN Report(e, Failing({
          <<"C13.raised", e.exc = "">>,
          <<"C13.shape", e.exc # "" \/ e.shape_ok>>,
          (* the caller's replicate array (possibly read-only) is not modified             *)
          <<"C13.replicates_untouched", e.exc # "" \/ ~("theta_untouched" \in DOMAIN e) \/ e.theta_untouched>>,
          <<"C13.quantile_formula", ~ok \/ m # "quantile" \/ \A a \in A :
               LET q == QuantileCI(th, a)  r == e.outq[K(a)] IN
               r[1][2] > 0 /\ r[2][2] > 0 /\ REq(r[1], q[1]) /\ REq(r[2], q[2])>>,
          <<"C13.bc_formula", ~ok \/ m # "bc" \/ \A a \in A : same(o(a), model(a), tol)>>,
          <<"C13.bca_formula", ~ok \/ m # "bca" \/ \A a \in A : same(o(a), model(a), tol)>>,
          <<"C13.ordered", ~ok \/ \A a \in A : pf(a) => o(a)[1] <= o(a)[2]>>,
          <<"C13.within_replicate_range", ~ok \/ \A a \in A :
               vs[1] * FS <= o(a)[1] + 1 /\ o(a)[2] <= vs[n] * FS + 1>>,
          <<"C13.nested_in_alpha", ~ok \/ \A a \in A, b \in A :
               (a < b /\ pf(a) /\ pf(b)) => o(a)[1] <= o(b)[1] + 2 /\ o(b)[2] <= o(a)[2] + 2>>,
          <<"C13.nan_replicates_ignored", ~ok \/ \A a \in A : same(e.v_nan[K(a)], o(a), 2)>>,
          <<"C13.order_ignored", ~ok \/ \A a \in A : same(e.v_perm[K(a)], o(a), 2)>>,
          <<"C13.affine_equivariant", ~ok \/ \A a \in A : pf(a) =>
               LET y == e.v_aff[K(a)] IN
               /\ Close(y[1], e.aff[1] * o(a)[1] + e.aff[2] * FS, 20 + tol)
               /\ Close(y[2], e.aff[1] * o(a)[2] + e.aff[2] * FS, 20 + tol)>>,
          <<"C13.scale_equivariant", ~ok \/ \A a \in A : pf(a) => same(e.v_small[K(a)], o(a), 20 + tol)>>,
          <<"C13.componentwise", ~ok \/ \A a \in A : same(e.v_stack[K(a)], o(a), 2)>>,
          (* metric of shape (2,3) (estimate in column-major / transposed layout): component [1,2]  *)
          (* carries our replicates, component [0,1] their affine image                             *)
          <<"C13.componentwise_2d", ~ok \/ \A a \in A :
               /\ same(e.v_stack2[K(a)][1], o(a), 2)
               /\ same(e.v_stack2[K(a)][2], e.v_aff[K(a)], 2)>>}))

(* a component without any finite replicate has no limits: NaN, for every method  *)
TraceAllNaN ==
  /\ IsEvent("bootci_all_nan")
  /\ Report(Log[l], Failing({<<"C13.no_finite_replicate_gives_nan", Log[l].exc = "" /\ Log[l].all_nan
                                                                    /\ Log[l].other_unaffected>>}))

(* 'bca' BEYOND the pole of the acceleration term (a (z0 + z_alpha) > 1 for one tail: an outlier-   *)
(* dominated replicate set, the estimate in the opposite tail, a tiny alpha given by table key):    *)
(* agreement with the documented formula is claimed everywhere - the quotient changes sign there.   *)
TracePole ==
  /\ IsEvent("bootci_pole")
  /\ LET e   == Log[l]
         th  == e.theta
         vs  == SortedFinite(th)
         z0  == Z0(th, e.est)
         acc == Accel6(th, e.est)
         zl  == Tables.zl6[e.key]
         zu  == Tables.z6[e.key]
         model == <<Quantile6(vs, Level6("bca", z0, acc, zl)), Quantile6(vs, Level6("bca", z0, acc, zu))>>
         tol == 200 * (vs[Len(vs)] - vs[1]) + 5
     IN Report(e, Failing({
          <<"C13.raised", e.exc = "">>,
          <<"C13.bca_formula", e.exc # "" \/ (Close(e.out[1], model[1], tol) /\ Close(e.out[2], model[2], tol))>>,
          <<"EXT.pole_case_is_beyond_the_pole", FMul(acc, z0 + zl) > FS \/ FMul(acc, z0 + zu) > FS>>}))

Next == TraceCI \/ TraceAllNaN \/ TracePole
Spec == Init /\ [][Next]_vars
AllConsumed == TLCGet("stats").diameter - 1 = Len(Log)
=============================================================================
