----------------------------- MODULE ScoresObj -----------------------------
(* Abstract Scores objects and the documented decision rule.               *)
(*                                                                         *)
(* An object is a record                                                   *)
(*   [pos, neg : ascending sequences of integers  (Scores.pos / .neg),     *)
(*    ep, en   : Nat                               (nb_easy_pos/_neg),     *)
(*    sc, ec   : {"pos","neg"}                     (score_class/equal_class)]*)
(* Score values are abstract integers: only their order type matters for   *)
(* everything defined here.  A threshold lives in DOUBLED coordinates:     *)
(* t2 = 2v means "equal to score value v", odd t2 means "strictly between  *)
(* two neighbouring values"; anything below 0 / above 2(K-1) is outside.   *)
(*                                                                         *)
(* Two definitions are given wherever the documented meaning and the       *)
(* implementation technique differ (CountCM vs CodedCM); the bounded       *)
(* models check that they coincide.                                        *)
EXTENDS Integers, Sequences, FiniteSets, TLC, Rat

Labels == {"pos", "neg"}
Flip(c) == IF c = "pos" THEN "neg" ELSE "pos"

IsAsc(s) == \A i \in 1..(Len(s) - 1) : s[i] <= s[i + 1]
AscSeqsN(V, n) == {s \in [1..n -> V] : IsAsc(s)}
AscSeqs(V, maxn) == UNION {AscSeqsN(V, n) : n \in 0..maxn}
AllSeqs(V, maxn) == UNION {[1..n -> V] : n \in 0..maxn}
SortAsc(s) == SortSeq(s, LAMBDA a, b : a < b)

Obj(p, n, ep, en, sc, ec) ==
  [pos |-> p, neg |-> n, ep |-> ep, en |-> en, sc |-> sc, ec |-> ec]

(* Scores.__init__ (scores.py:134-143): sorts unless is_sorted.            *)
NewObj(p, n, ep, en, sc, ec, sorted) ==
  IF sorted THEN Obj(p, n, ep, en, sc, ec)
            ELSE Obj(SortAsc(p), SortAsc(n), ep, en, sc, ec)

NPos(o) == Len(o.pos) + o.ep          \* nb_all_pos
NNeg(o) == Len(o.neg) + o.en          \* nb_all_neg
NAll(o) == NPos(o) + NNeg(o)

(* ----------------------------------------------------------------------- *)
(* The documented decision rule (README table)                             *)
(*    sc   ec    positive iff                                              *)
(*    pos  pos   score >= threshold                                        *)
(*    pos  neg   score >  threshold                                        *)
(*    neg  pos   score <= threshold                                        *)
(*    neg  neg   score <  threshold                                        *)
(* ----------------------------------------------------------------------- *)
DecidePos(sc, ec, v, t2) ==
  IF sc = "pos" THEN (IF ec = "pos" THEN 2 * v >= t2 ELSE 2 * v > t2)
                ELSE (IF ec = "pos" THEN 2 * v <= t2 ELSE 2 * v < t2)

NumTrue(s, P(_)) == Cardinality({i \in DOMAIN s : P(s[i])})

(* CountCM: <<TP, FN, FP, TN>> by counting, easy samples always correct.   *)
CountCM(o, t2) ==
  LET tph == NumTrue(o.pos, LAMBDA v : DecidePos(o.sc, o.ec, v, t2))
      fph == NumTrue(o.neg, LAMBDA v : DecidePos(o.sc, o.ec, v, t2))
  IN <<tph + o.ep, Len(o.pos) - tph, fph, Len(o.neg) - fph + o.en>>

(* The same thing the way the code does it (scores.py:308-328): binary     *)
(* search with a side chosen from sc/ec, then "above = len - below".       *)
(* SearchSorted needs an ASCENDING sequence: on an unsorted one it is the   *)
(* insertion index a bisection would find, which we do not model; the      *)
(* bounded model only ever applies it to constructor output.               *)
SearchSorted(s, t2, side) ==
  IF side = "left" THEN Cardinality({i \in DOMAIN s : 2 * s[i] < t2})
                   ELSE Cardinality({i \in DOMAIN s : 2 * s[i] <= t2})
CodedSide(o) == IF o.sc = "pos" THEN (IF o.ec = "pos" THEN "left" ELSE "right")
                                ELSE (IF o.ec = "pos" THEN "right" ELSE "left")
CodedCM(o, t2) ==
  LET pb == SearchSorted(o.pos, t2, CodedSide(o))
      nb == SearchSorted(o.neg, t2, CodedSide(o))
      pa == Len(o.pos) - pb
      na == Len(o.neg) - nb
  IN IF o.sc = "pos" THEN <<pa + o.ep, pb, na, nb + o.en>>
                     ELSE <<pb + o.ep, pa, nb, na + o.en>>

TP(c) == c[1]
FN(c) == c[2]
FP(c) == c[3]
TN(c) == c[4]

(* Per-sample membership (pointwise_cm, scores.py:1187-1206): cell index    *)
(* 1..4 = TP, FN, FP, TN of one labelled sample.                            *)
PointCell(isPos, sc, ec, v, t2) ==
  IF isPos THEN (IF DecidePos(sc, ec, v, t2) THEN 1 ELSE 2)
           ELSE (IF DecidePos(sc, ec, v, t2) THEN 3 ELSE 4)

(* ----------------------------------------------------------------------- *)
(* Rates.  A rate is a rational or the token "nan" (denominator 0).        *)
(* ----------------------------------------------------------------------- *)
NaN == <<"nan">>
Rate(num, den) == IF den = 0 THEN NaN ELSE R(num, den)
Metrics == {"tpr", "fnr", "tnr", "fpr", "topr", "tonr"}
MetricCount(m, c) ==
  CASE m = "tpr"  -> TP(c)
    [] m = "fnr"  -> FN(c)
    [] m = "tnr"  -> TN(c)
    [] m = "fpr"  -> FP(c)
    [] m = "topr" -> TP(c) + FP(c)
    [] m = "tonr" -> FN(c) + TN(c)
MetricDen(m, c) ==
  CASE m \in {"tpr", "fnr"} -> TP(c) + FN(c)
    [] m \in {"tnr", "fpr"} -> FP(c) + TN(c)
    [] OTHER                -> TP(c) + FN(c) + FP(c) + TN(c)
MetricRate(m, c) == Rate(MetricCount(m, c), MetricDen(m, c))
(* Population a metric is a fraction of (easy samples included).           *)
MetricPop(o, m) ==
  CASE m \in {"tpr", "fnr"} -> NPos(o)
    [] m \in {"tnr", "fpr"} -> NNeg(o)
    [] OTHER                -> NAll(o)
(* Scored samples a threshold_at_<m> call interpolates on.                 *)
MetricHard(o, m) ==
  CASE m \in {"tpr", "fnr"} -> Len(o.pos)
    [] m \in {"tnr", "fpr"} -> Len(o.neg)
    [] OTHER                -> Len(o.pos) + Len(o.neg)
SwapMetric(m) ==
  CASE m = "tpr" -> "tnr" [] m = "tnr" -> "tpr" [] m = "fnr" -> "fpr"
    [] m = "fpr" -> "fnr" [] m = "topr" -> "tonr" [] m = "tonr" -> "topr"
Alias(m) ==
  CASE m = "tpr" -> "tar" [] m = "fnr" -> "frr" [] m = "tnr" -> "trr"
    [] m = "fpr" -> "far" [] m = "topr" -> "acceptance_rate"
    [] m = "tonr" -> "rejection_rate"

(* ----------------------------------------------------------------------- *)
(* Object-to-object operations                                             *)
(* ----------------------------------------------------------------------- *)
(* Scores.swap (scores.py:278-294)                                         *)
SwapObj(o) == Obj(o.neg, o.pos, o.en, o.ep, Flip(o.sc), Flip(o.ec))

(* Environment action: negate all scores and flip score_class.  Value v    *)
(* becomes -v, a doubled threshold t2 becomes -t2.                         *)
RevSeq(s) == [i \in DOMAIN s |-> s[Len(s) + 1 - i]]
NegSeq(s) == [i \in DOMAIN s |-> -s[Len(s) + 1 - i]]
NegateObj(o) == Obj(NegSeq(o.pos), NegSeq(o.neg), o.ep, o.en, Flip(o.sc), o.ec)

(* Environment action: materialise the easy samples as actual scores lying *)
(* beyond every scored sample on their own class's side (C09).  lo/hi are  *)
(* any bounds with lo <= every score <= hi.                                *)
MaterialiseObj(o, lo, hi) ==
  LET posBeyondHigh == o.sc = "pos"
      extraPos == [i \in 1..o.ep |-> IF posBeyondHigh THEN hi + i ELSE lo - i]
      extraNeg == [i \in 1..o.en |-> IF posBeyondHigh THEN lo - i ELSE hi + i]
  IN Obj(SortAsc(o.pos \o extraPos), SortAsc(o.neg \o extraNeg), 0, 0, o.sc, o.ec)

ValuesOf(o) == {o.pos[i] : i \in DOMAIN o.pos} \cup {o.neg[i] : i \in DOMAIN o.neg}
MinSet(S) == CHOOSE x \in S : \A y \in S : x <= y
MaxSet(S) == CHOOSE x \in S : \A y \in S : x >= y
CrossTie(o) == \E i \in DOMAIN o.pos, j \in DOMAIN o.neg : o.pos[i] = o.neg[j]
TieFree(o) == /\ ~CrossTie(o)
              /\ \A i \in 1..(Len(o.pos) - 1) : o.pos[i] < o.pos[i + 1]
              /\ \A i \in 1..(Len(o.neg) - 1) : o.neg[i] < o.neg[i + 1]
============================================================================
