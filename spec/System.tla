------------------------------- MODULE System -------------------------------
(* The library as one state machine (see SystemDefs for the operation table and  *)
(* the shape rule): a store of live objects, constructor actions that add to it, *)
(* QUERY actions that must leave it unchanged.                                    *)
EXTENDS SystemDefs

CONSTANTS Objects,    \* initial objects to choose from
          MaxCalls

ThrArgs == (-1)..7                     \* thresholds in doubled coordinates
TgtArgs == {<<k, 6>> : k \in (-1)..7}   \* targets k/6

(* arr[h] = <<identity of h's pos array, identity of its neg array>>: swap() does NOT copy the   *)
(* score arrays, the mirrored object shares them with its source, so a write INTO an array is     *)
(* seen through every object holding it                                                            *)
VARIABLES store, calls, last, arr
svars == <<store, calls, last, arr>>

SInit == /\ \E o \in Objects : store = <<o>>
         /\ calls = 0 /\ last = [op |-> "new"] /\ arr = << <<1, 2>> >>
FreshId == 100 + calls

DefinedFor(o, op) ==
  CASE op \in {"threshold_at_tpr", "threshold_at_fnr"} -> Len(o.pos) > 0
    [] op \in {"threshold_at_tnr", "threshold_at_fpr"} -> Len(o.neg) > 0
    [] op \in {"threshold_at_topr", "threshold_at_tonr"} -> Len(o.pos) + Len(o.neg) > 0
    [] op \in ScalarOps -> Len(o.pos) > 0 /\ Len(o.neg) > 0
    [] OTHER -> TRUE

(* a query: the store is UNCHANGED                                                *)
Query(h, op, shape, arg) ==
  /\ calls < MaxCalls /\ calls' = calls + 1
  /\ h \in DOMAIN store /\ DefinedFor(store[h], op)
  /\ Len(arg) = Prod(shape)
  /\ last' = [op |-> op, h |-> h, shape |-> shape, arg |-> arg]
  /\ UNCHANGED <<store, arr>>
(* swap(): a constructor - adds an object, changes none                           *)
SwapCall(h) ==
  /\ calls < MaxCalls /\ calls' = calls + 1 /\ h \in DOMAIN store /\ Len(store) < 3
  /\ store' = Append(store, SwapObj(store[h]))
  /\ arr' = Append(arr, <<arr[h][2], arr[h][1]>>)          \* the same two arrays, roles exchanged
  /\ last' = [op |-> "swap", h |-> h, shape |-> <<>>, arg |-> <<>>]

(* copy.copy(obj) (shares the two score arrays), copy.deepcopy(obj) / a pickle round trip (new     *)
(* arrays): a new live object equal to the source                                                 *)
CopyCall(h, how) ==
  /\ calls < MaxCalls /\ calls' = calls + 1 /\ h \in DOMAIN store /\ Len(store) < 3
  /\ store' = Append(store, store[h])
  /\ arr' = Append(arr, IF how = "copy" THEN arr[h] ELSE <<FreshId, FreshId + 50>>)
  /\ last' = [op |-> "copy", h |-> h, shape |-> <<>>, arg |-> <<how>>]

(* the caller assigns new easy-sample counts to the public attributes of a live    *)
(* object: the only action that CHANGES an object of the store                     *)
SetEasy(h, ep, en) ==
  /\ calls < MaxCalls /\ calls' = calls + 1 /\ h \in DOMAIN store
  /\ <<ep, en>> # <<store[h].ep, store[h].en>>
  /\ store' = [store EXCEPT ![h] = [@ EXCEPT !.ep = ep, !.en = en]]
  /\ UNCHANGED arr
  /\ last' = [op |-> "set_easy", h |-> h, shape |-> <<>>, arg |-> <<ep, en>>]

(* ... or a new configuration (as enum member or as the plain string the library's  *)
(* label type compares equal to) ...                                               *)
SetConfig(h, sc, ec) ==
  /\ calls < MaxCalls /\ calls' = calls + 1 /\ h \in DOMAIN store
  /\ <<sc, ec>> # <<store[h].sc, store[h].ec>>
  /\ store' = [store EXCEPT ![h] = [@ EXCEPT !.sc = sc, !.ec = ec]]
  /\ UNCHANGED arr
  /\ last' = [op |-> "set_config", h |-> h, shape |-> <<>>, arg |-> <<sc, ec>>]
(* ... or re-binds one of the (sorted) score arrays                                *)
NewScores == {<<0, 2>>, <<1, 1, 3>>, <<2>>, <<0, 1, 2, 3>>}
SetScores(h, cls, seq) ==
  /\ calls < MaxCalls /\ calls' = calls + 1 /\ h \in DOMAIN store
  /\ seq # (IF cls = "pos" THEN store[h].pos ELSE store[h].neg)
  /\ store' = [store EXCEPT ![h] = IF cls = "pos" THEN [@ EXCEPT !.pos = seq] ELSE [@ EXCEPT !.neg = seq]]
  /\ arr' = [arr EXCEPT ![h] = IF cls = "pos" THEN <<FreshId, @[2]>> ELSE <<@[1], FreshId>>]   \* a NEW array
  /\ last' = [op |-> "set_scores", h |-> h, shape |-> <<>>, arg |-> <<cls, seq>>]
(* ... or adds a constant to every score IN PLACE (the arrays keep their identity)   *)
ShiftScores(h, d) ==
  /\ calls < MaxCalls /\ calls' = calls + 1 /\ h \in DOMAIN store
  /\ LET hit == {arr[h][1], arr[h][2]}
         sh(seq) == [i \in DOMAIN seq |-> seq[i] + d]
     IN store' = [k \in DOMAIN store |->
                    [store[k] EXCEPT !.pos = IF arr[k][1] \in hit THEN sh(@) ELSE @,
                                     !.neg = IF arr[k][2] \in hit THEN sh(@) ELSE @]]
  /\ UNCHANGED arr
  /\ last' = [op |-> "shift_scores", h |-> h, shape |-> <<>>, arg |-> <<d>>]
Assignments == {"set_easy", "set_config", "set_scores", "shift_scores"}

(* argument arrays: instead of every array over the value set (9^n of them) the  *)
(* machine picks a (seed, stride) pair and fills the array with the values        *)
(* vals[(seed + i*stride) mod |vals|] - enough to vary content, cheap to enumerate *)
ThrSeq == [i \in 1..9 |-> i - 2]
TgtSeq == [i \in 1..9 |-> <<i - 2, 6>>]
Fill(vals, n, seed, stride) == [i \in 1..n |-> vals[((seed + i * stride) % Len(vals)) + 1]]
ArgsFor(op, shape) ==
  IF op \in ScalarOps THEN {<<>>}
  ELSE {Fill(IF op \in ThrOps THEN TgtSeq ELSE ThrSeq, Prod(shape), sd, st) : sd \in 0..8, st \in {1, 2, 4}}
SNext == \/ \E h \in DOMAIN store, op \in QueryOps, shape \in Shapes :
              (op \in ScalarOps => shape = <<>>) /\ \E arg \in ArgsFor(op, shape) : Query(h, op, shape, arg)
         \/ \E h \in DOMAIN store : SwapCall(h)
         \/ \E h \in DOMAIN store, how \in {"copy", "deepcopy", "pickle"} : CopyCall(h, how)
         \/ \E h \in DOMAIN store, ep \in {0, 2}, en \in {0, 1, 3} : SetEasy(h, ep, en)
         \/ \E h \in DOMAIN store, sc \in {"pos", "neg"}, ec \in {"pos", "neg"} : SetConfig(h, sc, ec)
         \/ \E h \in DOMAIN store, cls \in {"pos", "neg"}, seq \in NewScores : SetScores(h, cls, seq)
         \/ \E h \in DOMAIN store, d \in {1, 2} : ShiftScores(h, d)
SSpec == SInit /\ [][SNext]_svars

(* C10 as an action property of the specification itself                          *)
IsQuery == last'.op \in QueryOps
QueriesAreSideEffectFree == [][IsQuery => UNCHANGED store]_svars
StoreOnlyGrows == [][\A h \in DOMAIN store : h \in DOMAIN store' /\
                         (store'[h] = store[h] \/ (last'.op \in Assignments /\ last'.h = h)
                          \/ (last'.op = "shift_scores" /\ {arr[h][1], arr[h][2]} \cap {arr[last'.h][1], arr[last'.h][2]} # {}))]_svars
(* an attribute assignment changes exactly the assigned fields of exactly that object   *)
SetEasyIsLocal == [][last'.op = "set_easy" /\ last' # last =>
                       /\ Len(store') = Len(store)
                       /\ \A h \in DOMAIN store :
                            /\ store'[h].pos = store[h].pos /\ store'[h].neg = store[h].neg
                            /\ store'[h].sc = store[h].sc /\ store'[h].ec = store[h].ec]_svars
AssignmentsAreLocal == [][last'.op \in Assignments /\ last' # last =>
                            /\ Len(store') = Len(store)
                            /\ \A h \in DOMAIN store :
                                 (h # last'.h /\ (last'.op # "shift_scores" \/
                                    {arr[h][1], arr[h][2]} \cap {arr[last'.h][1], arr[last'.h][2]} = {}))
                                 => store'[h] = store[h]]_svars
=============================================================================
