----------------------------- MODULE Threshold -----------------------------
(* Threshold setting at TPR/FNR/TNR/FPR/TOPR/TONR as the code does it       *)
(* (scores.py:413-641), in exact rational arithmetic, as its three stages   *)
(*                                                                          *)
(*   Rescale   target rescaling for easy samples, per metric   (:413-537)   *)
(*   Normalise reduction to an increasing, positive-score metric: flips of  *)
(*             target, continuity flag and interpolation method (:583-604)  *)
(*   Invert    1/N shift, floor/ceil indices, convex combination, clipping, *)
(*             the two sentinels one ulp outside the scores    (:610-641)   *)
(*                                                                          *)
(* and the property-level clauses (round trip within one sample, extreme    *)
(* operating points, coherence of the three methods, monotonicity) that the *)
(* bounded model checks on this algorithm and that the trace specification  *)
(* checks on values recorded from the implementation.                       *)
(*                                                                          *)
(* A threshold is <<"val", n, d>> (the rational n/d in abstract score       *)
(* coordinates), <<"below", 0, 1>> (nextafter(min score, -inf)) or          *)
(* <<"above", 0, 1>> (nextafter(max score, +inf)).                          *)
EXTENDS ScoresObj

Methods == {"linear", "lower", "higher"}
RevMethod(m) == CASE m = "lower" -> "higher" [] m = "higher" -> "lower" [] OTHER -> m

Merged(o) == SortAsc(o.pos \o o.neg)
(* the scored samples threshold_at_<m> interpolates on                      *)
RelScores(o, m) == CASE m \in {"tpr", "fnr"} -> o.pos
                     [] m \in {"tnr", "fpr"} -> o.neg
                     [] OTHER                -> Merged(o)

(* hard_pos_ratio etc. (scores.py:145-207)                                  *)
HardPosRatio(o) == IF o.ep > 0 THEN R(Len(o.pos), Len(o.pos) + o.ep) ELSE ROne
HardNegRatio(o) == IF o.en > 0 THEN R(Len(o.neg), Len(o.neg) + o.en) ELSE ROne
EasyRatio(o)    == IF o.ep + o.en > 0 THEN R(o.ep + o.en, NAll(o)) ELSE RZero
HardRatio(o)    == RSub(ROne, EasyRatio(o))

(* ---- stage 1: Rescale ---------------------------------------------------*)
(* After the repair of F1b the TPR/TNR rescaling is 1 + (r-1)/h, clipped.   *)
Rescale(o, m, r) ==
  CASE m = "tpr"  -> RClip01(RAdd(ROne, RDiv(RSub(r, ROne), HardPosRatio(o))))
    [] m = "fnr"  -> RMin(RDiv(r, HardPosRatio(o)), ROne)
    [] m = "tnr"  -> RClip01(RAdd(ROne, RDiv(RSub(r, ROne), HardNegRatio(o))))
    [] m = "fpr"  -> RMin(RDiv(r, HardNegRatio(o)), ROne)
    [] m = "topr" -> RMin(RDiv(RMax(RSub(r, R(o.ep, NAll(o))), RZero), HardRatio(o)), ROne)
    [] m = "tonr" -> RMin(RDiv(RMax(RSub(r, R(o.en, NAll(o))), RZero), HardRatio(o)), ROne)

(* table in _threshold_at_ratio's docstring, extended to TOPR/TONR          *)
Increasing(m) == m \in {"fnr", "tnr", "tonr"}
RatioClass(m) == IF m \in {"tpr", "fnr", "topr"} THEN "pos" ELSE "neg"

(* ---- stage 2: Normalise -------------------------------------------------*)
Normalise(o, m, t, method) ==
  LET lc0 == RatioClass(m) = "pos"
      lc1 == IF o.ec # "pos" THEN ~lc0 ELSE lc0
      t1  == IF Increasing(m) THEN t ELSE RSub(ROne, t)
      me1 == IF Increasing(m) THEN method ELSE RevMethod(method)
      t2  == IF o.sc # "pos" THEN RSub(ROne, t1) ELSE t1
      lc2 == IF o.sc # "pos" THEN ~lc1 ELSE lc1
      me2 == IF o.sc # "pos" THEN RevMethod(me1) ELSE me1
  IN [t |-> t2, lc |-> lc2, method |-> me2]

(* ---- stage 3: Invert ----------------------------------------------------*)
Val(q)  == <<"val", q[1], q[2]>>
Below   == <<"below", 0, 1>>
Above   == <<"above", 0, 1>>
ClipIdx(i, n) == IF i < 0 THEN 0 ELSE IF i > n - 1 THEN n - 1 ELSE i

Invert(S, t, lc, method) ==
  LET n   == Len(S)
      ts  == IF lc THEN t ELSE RSub(t, R(1, n))
      x   == RMul(ts, RInt(n))
      fl  == RFloor(x)
      ce  == RCeil(x)
      la  == RSub(RInt(ce), x)
      li  == ClipIdx(fl, n)
      ri  == ClipIdx(ce, n)
      lin == RAdd(RMul(la, RInt(S[li + 1])), RMul(RSub(ROne, la), RInt(S[ri + 1])))
  IN IF RLe(t, RZero) THEN Below
     ELSE IF RLe(ROne, t) THEN Above
     ELSE CASE method = "linear" -> Val(lin)
            [] method = "lower"  -> Val(RInt(S[li + 1]))
            [] method = "higher" -> Val(RInt(S[ri + 1]))

(* the whole pipeline                                                       *)
ThresholdCoded(o, m, r, method) ==
  LET nz == Normalise(o, m, Rescale(o, m, r), method)
  IN Invert(RelScores(o, m), nz.t, nz.lc, nz.method)

(* The as-coded result as a RELATION.  IEEE rounding of 1 - r and of the     *)
(* easy-sample rescaling can put target*N an ulp either side of an integer,  *)
(* and the normalised target an ulp either side of 0 or 1 (measured: 3% of   *)
(* on-grid targets).  At such grid points the implementation may therefore   *)
(* legitimately return the result for the exact target or for the target     *)
(* nudged infinitesimally either way; off the grid the relation is a         *)
(* function.  Results are compared as rationals, sentinels projected onto    *)
(* the extreme score (they differ from it by one ulp).                       *)
SentQ(thr, S) == CASE thr[1] = "below" -> RInt(S[1])
                   [] thr[1] = "above" -> RInt(S[Len(S)])
                   [] OTHER -> <<thr[2], thr[3]>>
CodedSet(o, m, r, method) ==
  LET S  == RelScores(o, m)
      n  == Len(S)
      nz == Normalise(o, m, Rescale(o, m, r), method)
      ts == IF nz.lc THEN nz.t ELSE RSub(nz.t, R(1, n))
      x  == RMul(ts, RInt(n))
      exact == SentQ(Invert(S, nz.t, nz.lc, nz.method), S)
      at(i) == RInt(S[ClipIdx(i, n) + 1])
  IN IF RIsInt(x)
     THEN LET X == RFloor(x) IN
          {exact} \cup (CASE nz.method = "linear" -> {at(X)}
                         [] nz.method = "lower"  -> {at(X - 1), at(X)}
                         [] nz.method = "higher" -> {at(X), at(X + 1)})
     ELSE {exact}

(* ---- reading a threshold back ---------------------------------------------*)
(* position of a threshold in doubled coordinates, for CountCM              *)
Pos2(thr, S) ==
  CASE thr[1] = "below" -> 2 * S[1] - 1
    [] thr[1] = "above" -> 2 * S[Len(S)] + 1
    [] OTHER -> IF thr[2] % thr[3] = 0 THEN 2 * (thr[2] \div thr[3])
                                       ELSE 2 * RFloor(<<thr[2], thr[3]>>) + 1
(* total order on thresholds of one score sequence                          *)
ThrLe(a, b) ==
  \/ a[1] = "below" \/ b[1] = "above"
  \/ (a[1] = "val" /\ b[1] = "val" /\ RLe(<<a[2], a[3]>>, <<b[2], b[3]>>))
ThrEq(a, b) == ThrLe(a, b) /\ ThrLe(b, a)

CountAt(o, m, t2) == MetricCount(m, CountCM(o, t2))
LowestCount(o, m)  == LET a == CountAt(o, m, 2 * MinSet(ValuesOf(o)) - 1)
                          b == CountAt(o, m, 2 * MaxSet(ValuesOf(o)) + 1)
                      IN IF a < b THEN a ELSE b
HighestCount(o, m) == LET a == CountAt(o, m, 2 * MinSet(ValuesOf(o)) - 1)
                          b == CountAt(o, m, 2 * MaxSet(ValuesOf(o)) + 1)
                      IN IF a < b THEN b ELSE a

(* r * population, clipped to the achievable counts (a rational)            *)
ClippedTarget(o, m, r) ==
  RMax(RInt(LowestCount(o, m)), RMin(RInt(HighestCount(o, m)), RMul(r, RInt(MetricPop(o, m)))))

(* ---- property clauses (shared by the bounded model and the judge) --------*)
(* c = count at the threshold, cb/ca = counts just below / just above it    *)
RoundTripOK(c, cb, ca, goal) ==
  LET lo == IF cb < ca THEN cb ELSE ca
      hi == IF cb < ca THEN ca ELSE cb
  IN \/ (RLe(RInt(c - 1), goal) /\ RLe(goal, RInt(c + 1)))
     \/ (RLe(RInt(lo - 1), goal) /\ RLe(goal, RInt(hi + 1)))

(* C03: at or beyond the ends of the rate scale the count is exactly the     *)
(* lowest / highest achievable one                                           *)
ExtremeOK(o, m, r, c) ==
  /\ RLe(r, RZero) => c = LowestCount(o, m)
  /\ RLe(ROne, r) => c = HighestCount(o, m)

(* metric is non-decreasing in the threshold iff ...                         *)
MetricUp(o, m) == IF o.sc = "pos" THEN Increasing(m) ELSE ~Increasing(m)

(* counts around a model threshold                                           *)
ModelCounts(o, m, thr) ==
  LET S  == RelScores(o, m)
      p  == Pos2(thr, S)
      on == p % 2 = 0
  IN [c  |-> CountAt(o, m, p),
      cb |-> CountAt(o, m, IF on THEN p - 1 ELSE p),
      ca |-> CountAt(o, m, IF on THEN p + 1 ELSE p)]
=============================================================================
