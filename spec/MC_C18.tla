------------------------------- MODULE MC_C18 -------------------------------
(* Bounded model for C18: frames grow one row at a time; the table of group     *)
(* metrics and its normalisations are checked on every frame; the join/split    *)
(* key construction of the code is shown to be faithful exactly when no group   *)
(* value contains the separator (which is the known finding for the others).    *)
EXTENDS ShowBias, Sequences

CONSTANTS G1, G2, Labels, Scores, MaxRows, T2s
VARIABLES frame
vars == <<frame>>
Init == frame = <<>>
AddRow(r) == Len(frame) < MaxRows /\ frame' = Append(frame, r)
Next == \E a \in G1, b \in G2, lab \in Labels, s \in Scores : AddRow(<<a, b, lab, s>>)
Spec == Init /\ [][Next]_vars

Names == {"fnr", "fpr", "tpr", "ppv", "accuracy", "fn", "pop"}
NonEmpty == Len(frame) > 0
(* groups partition the rows                                                      *)
InvPartition == NonEmpty => \A nc \in {1, 2} :
   /\ UNION {RowsOf(frame, nc, k) : k \in Keys(frame, nc)} = DOMAIN frame
   /\ \A k1, k2 \in Keys(frame, nc) : k1 # k2 => RowsOf(frame, nc, k1) \cap RowsOf(frame, nc, k2) = {}
(* by_min: the smallest row is 1 unless the divisor is 0                          *)
InvByMin == NonEmpty => \A nc \in {1, 2}, nm \in Names, t \in T2s :
   AllDefined(frame, nc, nm, 1, "pos", "pos", t) =>
     LET vals == {Normalised(frame, nc, k, nm, 1, "pos", "pos", t, "by_min") : k \in Keys(frame, nc)}
         raw == {GroupMetric(frame, nc, k, nm, 1, "pos", "pos", t) : k \in Keys(frame, nc)}
     IN IF MinQ(raw)[1] = 0 THEN vals = raw ELSE REq(MinQ(vals), ROne)
(* a count over all rows is the sum of the group counts                            *)
InvCountsAdd == NonEmpty => \A nc \in {1, 2}, t \in T2s :
   LET RECURSIVE Sum(_) Sum(S) == IF S = {} THEN 0 ELSE LET k == CHOOSE x \in S : TRUE IN
                                     GroupMetric(frame, nc, k, "fn", 1, "pos", "pos", t)[1] + Sum(S \ {k})
   IN Sum(Keys(frame, nc)) = OverallMetric(frame, "fn", 1, "pos", "pos", t)[1]
=============================================================================
