------------------------------ MODULE Trace_C18 ------------------------------
(* Judge for C18.  Group values travel as sequences of '_'-free tokens           *)
(* ("a_b" = <<"a","b">>): equality of values is equality of token sequences, and  *)
(* "contains the join character" is Len > 1.  Limits are fixed point (1e-6),      *)
(* NaNLim stands for NaN.                                                          *)
EXTENDS ShowBias, Fixed, Sequences, Json, IOUtils, TLCExt

Log == ndJsonDeserialize(IOEnv.TRACE_FILE)
VARIABLES l
vars == <<l>>
IsEvent(op) == l <= Len(Log) /\ Log[l].op = op /\ l' = l + 1
Init == l = 1
NaNLim == 1500000000

(* Known findings (known_findings.json), each tied to its call-site condition:    *)
(*  Dev_showbias_underscore_keys   group_columns given as a list and some value   *)
(*      of a grouping column contains '_': keys are joined with '_' and the row    *)
(*      labels are rebuilt by splitting on '_' (showbias.py:131-139, 301-324);     *)
(*  Dev_showbias_by_min_bootstrap  normalize='by_min' with bootstrap_ci=True: the  *)
(*      replicates (N,G,T) are divided by their minimum over axis 0, i.e. over      *)
(*      SAMPLES, not over groups (showbias.py:244-245).                            *)
HasSep(e) == \E i \in DOMAIN e.rows : \E c \in 1..e.ncols : Len(e.rows[i][c]) > 1
DevUnderscore(e) == IF e.cols_as_list /\ HasSep(e) THEN "Dev_showbias_underscore_keys" ELSE ""
DevByMin(e) == IF e.normalize = "by_min" /\ e.boot # "none" THEN "Dev_showbias_by_min_bootstrap" ELSE ""

Frame(e) == [i \in DOMAIN e.rows |-> <<e.rows[i][1], e.rows[i][2], e.rows[i][3], e.rows[i][4]>>]
SameQ2(a, b) == IF a[2] = 0 \/ b[2] = 0 THEN a[2] = 0 /\ b[2] = 0 ELSE (a[2] > 0 /\ b[2] > 0 /\ REq(a, b))
Rate6(r) == Quot6(r[1], r[2])

TraceShowBias ==
  /\ IsEvent("showbias")
  /\ LET e  == Log[l]
         fr == Frame(e)
         nc == e.ncols
         ks == Keys(fr, nc)
         o  == e.out
         ok == e.exc = ""
         nrow == Len(o.index)
         nt == Len(e.t2)
         lab(r) == [c \in 1..nc |-> o.index[r][c]]
         labelsOK == /\ ok /\ \A r \in 1..nrow : Len(o.index[r]) = nc
                     /\ {lab(r) : r \in 1..nrow} = ks /\ nrow = Cardinality(ks)
         defined(i) == AllDefined(fr, nc, e.metric, e.pos_label, e.sc, e.ec, e.t2[i])
         want(r, i) == Normalised(fr, nc, lab(r), e.metric, e.pos_label, e.sc, e.ec, e.t2[i], e.normalize)
         shapeOK == ok /\ Len(o.values) = nrow /\ \A r \in 1..nrow : Len(o.values[r]) = nt
         boot == e.boot # "none"
         bshape == shapeOK /\ boot /\ Len(o.lower) = nrow /\ Len(o.upper) = nrow
                   /\ \A r \in 1..nrow : Len(o.lower[r]) = nt /\ Len(o.upper[r]) = nt
         du == DevUnderscore(e)
         dm == DevByMin(e)
         rep(c, holds, dev) == holds \/ PrintT(<<"FAILED", e.id, c, dev>>)
     IN /\ rep("C18.raised", ok, du)
        /\ rep("C18.one_row_per_group_labelled_with_its_values", ~ok \/ labelsOK, du)
        /\ rep("C18.columns_are_the_thresholds", ~ok \/ o.columns_ok, "")
        /\ rep("C18.shape", ~ok \/ shapeOK, du)
        /\ rep("C18.entry_is_metric_of_that_groups_rows", ~labelsOK \/ ~shapeOK \/
               \A r \in 1..nrow : \A i \in 1..nt :
                  (e.normalize = "none" \/ defined(i)) => SameQ2(o.values[r][i], want(r, i)), du)
        (* a scripted, non-identity sampler (five stored samples handed out in turn): the bounds are the   *)
        (* interval formula (C13) on the replicates of the SAME normalised quantity, with the reported     *)
        (* value as point estimate; the whole-dataset divisor may be the source's (A) or each sample's (B) *)
        /\ rep("C18.interval_is_for_the_reported_quantity", ~bshape \/ ~labelsOK \/ e.boot # "scripted" \/
               ~("expected" \in DOMAIN o) \/
               \E tag \in {"A", "B"} :
                  LET x == o.expected[tag] IN
                  /\ Len(x.lower) = nrow /\ Len(x.upper) = nrow
                  /\ \A r \in 1..nrow : \A i \in 1..nt :
                       /\ Close(o.lower[r][i], x.lower[r][i], 2) /\ Close(o.upper[r][i], x.upper[r][i], 2),
               IF dm # "" THEN dm ELSE du)
        (* beyond the listed property: to_markdown() shows one row per group and, first in every   *)
        (* cell, the reported value rounded to three decimals                                      *)
        /\ rep("EXT.markdown_shows_the_values", ~shapeOK \/ ~("md" \in DOMAIN o) \/
               (/\ Len(o.md) = nrow
                /\ \A r \in 1..nrow : /\ Len(o.md[r]) = nt
                                        /\ \A i \in 1..nt :
                                             LET v == o.values[r][i]  c == o.md[r][i] IN
                                             IF v[2] = 0 THEN c = NaNLim
                                             (* as coded (pandas 3 string dtype): a NaN interval bound blanks *)
                                             (* the whole cell, value included                                *)
                                             ELSE IF c = NaNLim THEN bshape /\ (o.lower[r][i] = NaNLim \/ o.upper[r][i] = NaNLim)
                                             ELSE (v[2] > 0 /\ v[2] <= 5000 /\ v[1] < 400000 /\ v[1] > -400000) =>
                                                  (2 * (c * v[2] - 1000 * v[1]) <= v[2] + 2 /\
                                                   2 * (1000 * v[1] - c * v[2]) <= v[2] + 2)), "")
        /\ rep("C18.interval_has_same_labels", ~ok \/ ~boot \/ (bshape /\ o.ci_labels_same), du)
        /\ rep("C18.interval_ordered", ~bshape \/
               \A r \in 1..nrow : \A i \in 1..nt :
                  (o.lower[r][i] # NaNLim /\ o.upper[r][i] # NaNLim) => o.lower[r][i] <= o.upper[r][i], "")
        (* identity sampler: every replicate equals the reported value, so the      *)
        (* interval of the SAME normalised quantity collapses onto it               *)
        /\ rep("C18.interval_is_for_the_reported_quantity", ~bshape \/ ~labelsOK \/ e.boot # "identity" \/
               \A r \in 1..nrow : \A i \in 1..nt :
                  (defined(i) /\ o.values[r][i][2] > 0) =>
                     /\ Close(o.lower[r][i], Rate6(o.values[r][i]), 2)
                     /\ Close(o.upper[r][i], Rate6(o.values[r][i]), 2), IF dm # "" THEN dm ELSE du)
        (* built-in samplers on LARGE frames (>= 100 rows of either label, default 'dynamic' sampling): *)
        (* a bootstrap interval of a class-conditional rate over n rows is, beyond any reasonable     *)
        (* doubt (8 standard deviations), no wider than 4/sqrt(n) and no further than that from the   *)
        (* reported rate                                                                              *)
        /\ rep("C18.interval_is_about_the_reported_quantity_statistically",
               ~bshape \/ ~labelsOK \/ e.boot # "builtin" \/ ~("big" \in DOMAIN e) \/ e.normalize # "none" \/
               e.metric \notin {"fnr", "tpr", "fpr", "tnr"} \/
               \A r \in 1..nrow : \A i \in 1..nt :
                  LET m == CMOf(fr, RowsOf(fr, nc, lab(r)), e.pos_label, e.sc, e.ec, e.t2[i])
                      n == IF e.metric \in {"fnr", "tpr"} THEN bP(m) ELSE bN(m)
                      b == Quot6(4000, Sqrt6(n) \div 1000)
                      p == Rate6(o.values[r][i])
                  IN (n >= 30 /\ n <= 400 /\ o.values[r][i][2] > 0) =>
                       /\ o.upper[r][i] - o.lower[r][i] <= b
                       /\ o.lower[r][i] - b <= p /\ p <= o.upper[r][i] + b, "")

Next == TraceShowBias
Spec == Init /\ [][Next]_vars
AllConsumed == TLCGet("stats").diameter - 1 = Len(Log)
=============================================================================
