------------------------------- MODULE MC_C02 -------------------------------
(* Bounded model for threshold setting (C02 round trip / coherence, C03     *)
(* extreme operating points).  A state is an object or an object together   *)
(* with the result vector of one vectorised query threshold_at_<m>(targets, *)
(* method); queries are enabled only from the un-queried state.             *)
EXTENDS Threshold, Json, IOUtils, SequencesExt

CONSTANTS K, MaxP, MaxN, EasyPairs, Qs

EasyQuick    == {<<0, 0>>, <<2, 1>>, <<0, 3>>}
EasyThorough == {<<0, 0>>, <<2, 1>>, <<0, 3>>, <<1, 0>>, <<4, 4>>, <<3, 7>>}
QsQuick      == {1, 2}
QsThorough   == {1, 2, 3}

V == 0..(K - 1)

Objects ==
  {o \in [pos : AscSeqs(V, MaxP), neg : AscSeqs(V, MaxN), ep : {e[1] : e \in EasyPairs},
          en : {e[2] : e \in EasyPairs}, sc : Labels, ec : Labels] :
     /\ <<o.ep, o.en>> \in EasyPairs
     /\ Len(o.pos) + Len(o.neg) > 0}

Defined(o, m) == Len(RelScores(o, m)) > 0

(* targets k/(q*N), k = -q .. q*N+q: on and off the k/N grid, < 0 and > 1   *)
TargetsOf(o, m) ==
  LET N == MetricPop(o, m)
      S == UNION {{R(k, q * N) : k \in (-q)..(q * N + q)} : q \in Qs}
  IN SortSeq(SetToSeq(S), RLt)

VARIABLES obj, q
vars == <<obj, q>>
NoQuery == [m |-> "none", method |-> "none", r |-> <<>>, thr |-> <<>>]

Init == obj \in Objects /\ q = NoQuery

Query(m, method) ==
  /\ q = NoQuery /\ Defined(obj, m)
  /\ LET rs == TargetsOf(obj, m) IN
       q' = [m |-> m, method |-> method, r |-> rs,
             thr |-> [i \in DOMAIN rs |-> ThresholdCoded(obj, m, rs[i], method)]]
  /\ UNCHANGED obj

Next == \E m \in Metrics, method \in Methods : Query(m, method)
Spec == Init /\ [][Next]_vars

Queried == q # NoQuery
Idx == DOMAIN q.r
CountsAt(i) == ModelCounts(obj, q.m, q.thr[i])

(* C02: within one sample of the clipped target (ties: bracket)             *)
InvRoundTrip == Queried => \A i \in Idx :
  LET k == CountsAt(i) IN RoundTripOK(k.c, k.cb, k.ca, ClippedTarget(obj, q.m, q.r[i]))

(* C03: r <= 0 / r >= 1 give exactly the lowest / highest achievable count  *)
InvExtreme == Queried => \A i \in Idx : ExtremeOK(obj, q.m, q.r[i], CountsAt(i).c)

(* lower / higher return a sample score or a sentinel                       *)
IsScoreOrSentinel(thr, S) ==
  \/ thr[1] \in {"below", "above"}
  \/ (thr[3] = 1 /\ \E j \in DOMAIN S : S[j] = thr[2])
InvLowerHigherAreScores == (Queried /\ q.method # "linear") =>
  \A i \in Idx : IsScoreOrSentinel(q.thr[i], RelScores(obj, q.m))

(* metric(lower) <= metric(higher); linear between them; convex combination  *)
InvCoherent == (Queried /\ q.method = "linear") => \A i \in Idx :
  LET lo == ThresholdCoded(obj, q.m, q.r[i], "lower")
      hi == ThresholdCoded(obj, q.m, q.r[i], "higher")
      li == q.thr[i]
      clo == ModelCounts(obj, q.m, lo).c
      chi == ModelCounts(obj, q.m, hi).c
  IN /\ clo <= chi
     /\ (ThrLe(lo, li) /\ ThrLe(li, hi)) \/ (ThrLe(hi, li) /\ ThrLe(li, lo))

Frac(x) == RSub(x, RInt(RFloor(x)))
InvConvex == (Queried /\ q.method = "linear") => \A i \in Idx :
  LET lo == ThresholdCoded(obj, q.m, q.r[i], "lower")
      hi == ThresholdCoded(obj, q.m, q.r[i], "higher")
      li == q.thr[i]
      f  == Frac(RMul(q.r[i], RInt(MetricPop(obj, q.m))))
      cv(a, b, w) == RAdd(RMul(w, <<a[2], a[3]>>), RMul(RSub(ROne, w), <<b[2], b[3]>>))
  IN (li[1] = "val" /\ lo[1] = "val" /\ hi[1] = "val") =>
        \/ REq(<<li[2], li[3]>>, cv(lo, hi, f))
        \/ REq(<<li[2], li[3]>>, cv(hi, lo, f))

(* threshold is a monotone function of the target                           *)
InvMonotone == Queried => \A i \in Idx \ {Len(q.r)} :
  IF MetricUp(obj, q.m) THEN ThrLe(q.thr[i], q.thr[i + 1])
                        ELSE ThrLe(q.thr[i + 1], q.thr[i])

EmitCases ==
  TLCGet("stats").distinct >= 0 /\
  JsonSerialize(IOEnv.CASES_FILE, [k |-> K, qs |-> SetToSeq(Qs), cases |-> SetToSeq(Objects)])
=============================================================================
