------------------------------ MODULE Trace_C10 ------------------------------
(* Judge for C10: behaviours of System replayed into the implementation.  Every *)
(* Query event carries the flattened, projected result of the vectorised call,   *)
(* the results of the scalar calls element by element, the alias result, the     *)
(* projected state of the object AFTER the call and the caller's array AFTER the *)
(* call.  The store is rebuilt by the specification's constructor actions only.  *)
EXTENDS SystemDefs, TLC, Json, IOUtils, TLCExt

Log == ndJsonDeserialize(IOEnv.TRACE_FILE)
VARIABLES l, st, memo, ar        \* ar[h] = identities of h's <<pos, neg>> arrays (System's arr)
vars == <<l, st, memo, ar>>
Report(e, fails) == \A c \in fails : PrintT(<<"FAILED", e.id, c>>)
Failing(S) == {p[1] : p \in {q \in S : ~q[2]}}
IsEvent(op) == l <= Len(Log) /\ Log[l].op = op /\ l' = l + 1
ObjOfRec(r) == Obj(r.pos, r.neg, r.ep, r.en, r.sc, r.ec)
Init == l = 1 /\ st = <<>> /\ memo = <<>> /\ ar = <<>>

TraceNew ==
  /\ IsEvent("New")
  /\ LET e == Log[l]
         a == e.args
         o == NewObj(a.p, a.n, a.ep, a.en, a.sc, a.ec, a.sorted)
     IN /\ st' = <<o>> /\ memo' = <<>> /\ ar' = << <<1, 2>> >>
        /\ Report(e, Failing({<<"C10.raised", e.exc = "">>,
                              <<"C10.new_state", e.exc # "" \/ ObjOfRec(e.post) = o>>}))
TraceSwap ==
  /\ IsEvent("Swap")
  /\ LET e == Log[l]
         o == SwapObj(st[e.h])
     IN /\ st' = Append(st, o) /\ UNCHANGED memo /\ ar' = Append(ar, <<ar[e.h][2], ar[e.h][1]>>)
        /\ Report(e, Failing({<<"C10.raised", e.exc = "">>,
                              <<"C10.swap_state", e.exc # "" \/ ObjOfRec(e.post) = o>>,
                              <<"C10.object_not_mutated", e.exc # "" \/ ObjOfRec(e.src_post) = st[e.h]>>}))

(* attribute assignment on a live object: System's SetEasy; what was remembered about *)
(* earlier answers of that object no longer applies                                    *)
TraceSetEasy ==
  /\ IsEvent("SetEasy")
  /\ LET e == Log[l]
         o == [st[e.h] EXCEPT !.ep = e.ep, !.en = e.en]
     IN /\ st' = [st EXCEPT ![e.h] = o] /\ UNCHANGED ar
        /\ memo' = SelectSeq(memo, LAMBDA m : m[1][1] # e.h)
        /\ Report(e, Failing({<<"C10.raised", e.exc = "">>,
                              <<"C10.state_after_assignment", e.exc # "" \/ ObjOfRec(e.post) = o>>}))

TraceSetConfig ==
  /\ IsEvent("SetConfig")
  /\ LET e == Log[l]
         o == [st[e.h] EXCEPT !.sc = e.sc, !.ec = e.ec]
     IN /\ st' = [st EXCEPT ![e.h] = o] /\ UNCHANGED ar
        /\ memo' = SelectSeq(memo, LAMBDA m : m[1][1] # e.h)
        /\ Report(e, Failing({<<"C10.raised", e.exc = "">>,
                              <<"C10.state_after_assignment", e.exc # "" \/ ObjOfRec(e.post) = o>>}))
TraceSetScores ==
  /\ IsEvent("SetScores")
  /\ LET e == Log[l]
         o == IF e.cls = "pos" THEN [st[e.h] EXCEPT !.pos = e.seq] ELSE [st[e.h] EXCEPT !.neg = e.seq]
     IN /\ st' = [st EXCEPT ![e.h] = o]
        /\ ar' = [ar EXCEPT ![e.h] = IF e.cls = "pos" THEN <<100 + l, @[2]>> ELSE <<@[1], 100 + l>>]
        /\ memo' = SelectSeq(memo, LAMBDA m : m[1][1] # e.h)
        /\ Report(e, Failing({<<"C10.raised", e.exc = "">>,
                              <<"C10.state_after_assignment", e.exc # "" \/ ObjOfRec(e.post) = o>>}))

(* a write INTO the arrays of object h.  Whether another live object sees it depends on whether   *)
(* it shares the arrays (as coded, swap() does not copy: System.arr); sharing is an implementation *)
(* choice, not part of any listed property, so for the OTHER objects both outcomes are accepted    *)
(* (per array) and the recorded one is adopted                                                      *)
TraceShiftScores ==
  /\ IsEvent("ShiftScores")
  /\ LET e == Log[l]
         sh(seq) == [i \in DOMAIN seq |-> seq[i] + e.d]
         want == [st[e.h] EXCEPT !.pos = sh(@), !.neg = sh(@)]
         okOther(k) == LET r == ObjOfRec(e.posts[k]) IN
                       /\ r.pos \in {st[k].pos, sh(st[k].pos)} /\ r.neg \in {st[k].neg, sh(st[k].neg)}
                       /\ [r EXCEPT !.pos = st[k].pos, !.neg = st[k].neg] = st[k]
         good == e.exc = "" /\ Len(e.posts) = Len(st) /\ ObjOfRec(e.posts[e.h]) = want
                 /\ \A k \in DOMAIN st : k # e.h => okOther(k)
         asModelled == \A k \in DOMAIN st :
             LET hit == {ar[e.h][1], ar[e.h][2]} IN
             ObjOfRec(e.posts[k]) = [st[k] EXCEPT !.pos = IF ar[k][1] \in hit THEN sh(@) ELSE @,
                                                 !.neg = IF ar[k][2] \in hit THEN sh(@) ELSE @]
     IN /\ st' = IF good THEN [k \in DOMAIN st |-> ObjOfRec(e.posts[k])] ELSE [st EXCEPT ![e.h] = want]
        /\ UNCHANGED ar
        /\ memo' = <<>>
        /\ Report(e, Failing({<<"C10.raised", e.exc = "">>,
                              <<"C10.state_after_assignment", e.exc # "" \/ good>>,
                              <<"DRIFT.array_sharing_model", ~good \/ asModelled>>}))

TraceCopy ==
  /\ IsEvent("Copy")
  /\ LET e == Log[l]
         o == st[e.h]
     IN /\ st' = Append(st, o) /\ UNCHANGED memo
        /\ ar' = Append(ar, IF e.how = "copy" THEN ar[e.h] ELSE <<100 + l, 150 + l>>)
        /\ Report(e, Failing({<<"C10.raised", e.exc = "">>,
                              <<"C10.copy_equals_source", e.exc # "" \/ ObjOfRec(e.post) = o>>,
                              <<"C10.object_not_mutated", e.exc # "" \/ ObjOfRec(e.src_post) = o>>}))

TraceQuery ==
  /\ IsEvent("Query") /\ UNCHANGED <<st, ar>>
  /\ LET e == Log[l]
         o == st[e.h]
         ok == e.exc = ""
         key == <<e.h, e.opname, e.shape, e.arg, e.method>>
         seen == \E i \in DOMAIN memo : memo[i][1] = key
         prev == memo[CHOOSE i \in DOMAIN memo : memo[i][1] = key][2]
         ns == Len(o.pos) + Len(o.neg)
     IN /\ memo' = IF ok /\ ~seen THEN Append(memo, <<key, e.out>>) ELSE memo
        /\ Report(e, Failing({
             <<"C10.raised", ok>>,
             <<"C10.shape_rule", ~ok \/ e.out_shape = ShapeRule(e.opname, e.shape, ns)>>,
             <<"C10.elementwise_equals_scalar_call", ~ok \/ e.opname \in ScalarOps \/
                  (e.scalar_out = e.out /\ e.scalar_exact)>>,
             <<"C10.scalar_in_plain_scalar_out", ~ok \/ e.scalar_type_ok>>,
             <<"C10.alias_identical", ~ok \/ (e.alias_out = e.out /\ e.alias_exact)>>,
             <<"C10.object_not_mutated", ~ok \/ ObjOfRec(e.post) = o>>,
             <<"C10.argument_not_mutated", ~ok \/ (e.arg_after = e.arg /\ e.arg_bitwise_same)>>,
             <<"C10.repeatable", ~ok \/ ~seen \/ e.out = prev>>,
             <<"C10.independent_of_call_history", ~ok \/ (e.fresh_out = e.out /\ e.fresh_exact)>>}))

Next == TraceNew \/ TraceSwap \/ TraceQuery \/ TraceSetEasy \/ TraceSetConfig \/ TraceSetScores \/ TraceShiftScores \/ TraceCopy
Spec == Init /\ [][Next]_vars
AllConsumed == TLCGet("stats").diameter - 1 = Len(Log)
=============================================================================
