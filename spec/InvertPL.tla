------------------------------ MODULE InvertPL ------------------------------
(* utils.invert_pl_function (utils.py:143-222): all solutions of f(s) = t for   *)
(* the piecewise-linear interpolant f of samples (x_i, y_i), x non-decreasing   *)
(* (duplicates allowed with equal y); the closest sample point if there is no   *)
(* crossing.  x, y are sequences of rationals.                                  *)
EXTENDS Rat, Sequences, FiniteSets, Integers

(* value of the interpolant at z in [x_1, x_n]                                   *)
Interp(x, y, z) ==
  LET n == Len(x)
      j == CHOOSE k \in 1..(n - 1) : RLe(x[k], z) /\ RLe(z, x[k + 1])
  IN IF REq(x[j], x[j + 1]) THEN y[j]
     ELSE RAdd(y[j], RMul(RDiv(RSub(z, x[j]), RSub(x[j + 1], x[j])), RSub(y[j + 1], y[j])))
InRange(x, z) == RLe(x[1], z) /\ RLe(z, x[Len(x)])

(* the samples cross or touch the target                                         *)
Touches(y, t) == \/ \E j \in DOMAIN y : REq(y[j], t)
                 \/ \E j \in 1..(Len(y) - 1) : (RLt(y[j], t) /\ RLt(t, y[j + 1])) \/ (RLt(t, y[j]) /\ RLt(y[j + 1], t))

(* ---- as coded ------------------------------------------------------------------*)
Crossing(y, t, j) == \/ (RLe(y[j], t) /\ RLt(t, y[j + 1]))       \* crossing up
                     \/ (RLe(t, y[j]) /\ RLt(y[j + 1], t))       \* crossing down
SolveSeg(x, y, t, j) ==
  LET la == RDiv(RSub(t, y[j]), RSub(y[j + 1], y[j]))
  IN RAdd(RMul(RSub(ROne, la), x[j]), RMul(la, x[j + 1]))
RECURSIVE CollectFrom(_, _, _, _)
CollectFrom(x, y, t, j) ==
  IF j > Len(x) - 1 THEN <<>>
  ELSE (IF Crossing(y, t, j) THEN <<SolveSeg(x, y, t, j)>> ELSE <<>>) \o CollectFrom(x, y, t, j + 1)
(* np.argmin: first index of minimal |y - t|                                       *)
ArgMinDist(y, t) ==
  CHOOSE j \in DOMAIN y : /\ \A k \in DOMAIN y : RLe(RAbs(RSub(y[j], t)), RAbs(RSub(y[k], t)))
                          /\ \A k \in 1..(j - 1) : RLt(RAbs(RSub(y[j], t)), RAbs(RSub(y[k], t)))
Coded(x, y, t) ==
  LET s == CollectFrom(x, y, t, 1) IN IF s = <<>> THEN <<x[ArgMinDist(y, t)]>> ELSE s

(* ---- the property ---------------------------------------------------------------*)
StrictlyIncreasing(s) == \A i \in 1..(Len(s) - 1) : RLt(s[i], s[i + 1])
MinDist(y, t) == LET j == ArgMinDist(y, t) IN RAbs(RSub(y[j], t))
SolutionsOK(x, y, t, s) ==
  /\ Len(s) >= 1
  /\ \A i \in DOMAIN s : InRange(x, s[i])
  /\ StrictlyIncreasing(s)
  /\ IF Touches(y, t)
     THEN \A i \in DOMAIN s : REq(Interp(x, y, s[i]), t)
     ELSE /\ Len(s) = 1
          /\ \E j \in DOMAIN x : REq(x[j], s[1]) /\ REq(RAbs(RSub(y[j], t)), MinDist(y, t))
=============================================================================
