------------------------------ MODULE Trace_C01 ------------------------------
(* Trace specification (judge) for C01.  Reads an ndjson trace recorded from *)
(* the real implementation (env TRACE_FILE) and replays it against the      *)
(* specification's own actions: New / Swap rebuild the abstract object from *)
(* the ARGUMENTS the code was given (never from what the code reports), and *)
(* every query event is judged against CountCM of that abstract object.     *)
(* A failed clause is printed as <<"FAILED", event id, clause>>; the judge  *)
(* never stops at the first failure.                                        *)
EXTENDS ScoresObj, Json, IOUtils, TLCExt

Log == ndJsonDeserialize(IOEnv.TRACE_FILE)

VARIABLES l,       \* next event to consume
          store    \* handle -> abstract object (function with growing domain)
vars == <<l, store>>

Report(e, fails) == \A c \in fails : PrintT(<<"FAILED", e.id, c>>)
Failing(S) == {p[1] : p \in {q \in S : ~q[2]}}
IsEvent(op) == l <= Len(Log) /\ Log[l].op = op /\ l' = l + 1
Has(h) == h \in DOMAIN store

ObjOfRec(r) == Obj(r.pos, r.neg, r.ep, r.en, r.sc, r.ec)
Cells(m) == <<m[1], m[2], m[3], m[4]>>

Init == l = 1 /\ store = <<>>

(* Scores(...) / Scores.from_labels(...): the spec action NewObj builds the *)
(* object; the recorded post-state must be that object (sorted, counts and  *)
(* flags preserved).                                                        *)
TraceNew ==
  /\ IsEvent("New")
  /\ LET e == Log[l]
         a == e.args
         o == NewObj(a.p, a.n, a.ep, a.en, a.sc, a.ec, a.sorted)
     IN /\ store' = (e.h :> o) @@ store
        /\ Report(e, Failing({
             <<"C01.raised", e.exc = "">>,
             <<"C01.new_state", e.exc # "" \/ ObjOfRec(e.post) = o>>,
             (* beyond the listed property: size / ratio accessors, equality                   *)
             <<"EXT.size_accessors", e.exc # "" \/ ~("sizes" \in DOMAIN e) \/
                  LET z == e.sizes IN
                  /\ z.nb_hard_pos = Len(o.pos) /\ z.nb_hard_neg = Len(o.neg)
                  /\ z.nb_hard_samples = Len(o.pos) + Len(o.neg)
                  /\ z.nb_all_pos = NPos(o) /\ z.nb_all_neg = NNeg(o) /\ z.nb_all_samples = NPos(o) + NNeg(o)
                  /\ z.nb_easy_samples = o.ep + o.en>>,
             <<"EXT.ratio_accessors", e.exc # "" \/ ~("ratios" \in DOMAIN e) \/ DOMAIN e.ratios = {} \/
                  LET q == e.ratios  all == NPos(o) + NNeg(o) IN
                  /\ REq(q.hard_pos_ratio, R(Len(o.pos), NPos(o))) /\ REq(q.hard_neg_ratio, R(Len(o.neg), NNeg(o)))
                  /\ REq(q.easy_pos_ratio, R(o.ep, NPos(o))) /\ REq(q.easy_neg_ratio, R(o.en, NNeg(o)))
                  /\ REq(q.easy_ratio, R(o.ep + o.en, all)) /\ REq(q.hard_ratio, R(Len(o.pos) + Len(o.neg), all))>>,
             <<"EXT.equality", e.exc # "" \/ ~("eq_twin" \in DOMAIN e) \/ (e.eq_twin /\ e.neq_other)>>}))

(* An object that the library itself produced (e.g. a bootstrap sample) is   *)
(* adopted as it reports itself: the multiset of its own pos/neg scores.  Its *)
(* matrices must still equal counting by the decision rule over those scores  *)
(* - which fails if the object is internally unsorted.                        *)
TraceAdopt ==
  /\ IsEvent("Adopt")
  /\ LET e == Log[l]
         r == e.post
         o == Obj(SortAsc(r.pos), SortAsc(r.neg), r.ep, r.en, r.sc, r.ec)
     IN /\ store' = (e.h :> o) @@ store
        /\ Report(e, Failing({<<"C01.raised", e.exc = "">>}))

TraceSwap ==
  /\ IsEvent("Swap")
  /\ LET e == Log[l]
         o == SwapObj(store[e.h])
     IN /\ store' = (e.h2 :> o) @@ store
        /\ Report(e, Failing({
             <<"C01.raised", e.exc = "">>,
             <<"C01.swap_state", e.exc # "" \/ ObjOfRec(e.post) = o>>}))

(* Scores.cm(threshold).matrix for a vector of thresholds                   *)
TraceCM ==
  /\ IsEvent("cm")
  /\ LET e == Log[l]
         o == store[e.h]
         n == Len(e.t2)
         okLen == e.exc = "" /\ Len(e.out) = n
     IN /\ UNCHANGED store
        /\ Report(e, Failing({
             <<"C01.raised", e.exc = "">>,
             <<"C01.shape", e.exc # "" \/ okLen>>,
             <<"C01.cm_eq_count",
                 ~okLen \/ \A i \in 1..n : Cells(e.out[i]) = CountCM(o, e.t2[i])>>,
             <<"C01.totals_const",
                 ~okLen \/ \A i \in 1..n : /\ e.out[i][1] + e.out[i][2] = NPos(o)
                                           /\ e.out[i][3] + e.out[i][4] = NNeg(o)>>}))

(* the six rate methods and their aliases: exact rational or NaN            *)
RateNames == {"tpr", "fnr", "tnr", "fpr", "topr", "tonr",
              "tar", "frr", "trr", "far", "acceptance_rate", "rejection_rate"}
Canon(m) == CASE m = "tar" -> "tpr" [] m = "frr" -> "fnr" [] m = "trr" -> "tnr"
              [] m = "far" -> "fpr" [] m = "acceptance_rate" -> "topr"
              [] m = "rejection_rate" -> "tonr" [] OTHER -> m
RateOk(o, m, t2, r) ==
  LET want == MetricRate(Canon(m), CountCM(o, t2)) IN
    IF want = NaN THEN r[2] = 0 ELSE (r[2] > 0 /\ REq(r, want))
TraceRates ==
  /\ IsEvent("rates")
  /\ LET e == Log[l]
         o == store[e.h]
         n == Len(e.t2)
         okLen == e.exc = "" /\ \A m \in RateNames : Len(e.out[m]) = n
     IN /\ UNCHANGED store
        /\ Report(e, Failing({
             <<"C01.raised", e.exc = "">>,
             <<"C01.shape", e.exc # "" \/ okLen>>,
             <<"C01.rate_eq_count",
                 ~okLen \/ \A m \in RateNames : \A i \in 1..n :
                               RateOk(o, m, e.t2[i], e.out[m][i])>>}))

(* pointwise_cm(labels, scores, threshold): out[j][i] = the four membership *)
(* bits <<TP, FN, FP, TN>> of sample j at threshold i.                      *)
OneHot(k) == <<IF k = 1 THEN 1 ELSE 0, IF k = 2 THEN 1 ELSE 0,
              IF k = 3 THEN 1 ELSE 0, IF k = 4 THEN 1 ELSE 0>>
TracePointwise ==
  /\ IsEvent("pointwise")
  /\ LET e == Log[l]
         a == e.args
         ns == Len(a.scores)
         n == Len(e.t2)
         okLen == e.exc = "" /\ Len(e.out) = ns /\ \A j \in 1..ns : Len(e.out[j]) = n
         sumCell(i, c) == LET S == {j \in 1..ns : e.out[j][i][c] = 1} IN Cardinality(S)
     IN /\ UNCHANGED store
        /\ Report(e, Failing({
             <<"C01.raised", e.exc = "">>,
             <<"C01.shape", e.exc # "" \/ okLen>>,
             <<"C01.pointwise_cell",
                 ~okLen \/ \A j \in 1..ns : \A i \in 1..n :
                    e.out[j][i] = OneHot(PointCell(a.labels[j] = 1, a.sc, a.ec,
                                                   a.scores[j], e.t2[i]))>>,
             <<"C01.pointwise_sum",
                 ~okLen \/ \A i \in 1..n :
                    LET P == {j \in 1..ns : a.labels[j] = 1}
                        N == {j \in 1..ns : a.labels[j] # 1}
                        tp == Cardinality({j \in P : DecidePos(a.sc, a.ec, a.scores[j], e.t2[i])})
                        fp == Cardinality({j \in N : DecidePos(a.sc, a.ec, a.scores[j], e.t2[i])})
                    IN <<sumCell(i, 1), sumCell(i, 2), sumCell(i, 3), sumCell(i, 4)>>
                       = <<tp, Cardinality(P) - tp, fp, Cardinality(N) - fp>>>>}))

(* copy.copy / copy.deepcopy / a pickle round trip of a live object: an equal object            *)
TraceCopy ==
  /\ IsEvent("Copy")
  /\ LET e == Log[l]
         o == store[e.h]
     IN /\ store' = (e.h2 :> o) @@ store
        /\ Report(e, Failing({<<"C01.raised", e.exc = "">>,
                              <<"C01.copy_equals_source", e.exc # "" \/ ObjOfRec(e.post) = o>>}))

Next == TraceCopy \/ TraceNew \/ TraceAdopt \/ TraceSwap \/ TraceCM \/ TraceRates \/ TracePointwise
Spec == Init /\ [][Next]_vars

AllConsumed == TLCGet("stats").diameter - 1 = Len(Log)
=============================================================================
