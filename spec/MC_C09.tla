------------------------------- MODULE MC_C09 -------------------------------
(* Bounded model for C09: an object declaring easy samples versus the       *)
(* object in which those samples are materialised as actual scores lying    *)
(* beyond all other scores on their own class's side (environment action    *)
(* Materialise).  The relations are action properties.                      *)
EXTENDS Threshold, Json, IOUtils, SequencesExt

CONSTANTS K, MaxP, MaxN, EasyPairs, Qs

EasyQuick    == {<<0, 0>>, <<2, 1>>, <<0, 3>>, <<1, 0>>}
EasyThorough == {<<0, 0>>, <<2, 1>>, <<0, 3>>, <<1, 0>>, <<3, 3>>, <<1, 4>>}
QsQuick      == {1, 2}
QsThorough   == {1, 2, 3}

V == 0..(K - 1)

Objects ==
  {o \in [pos : AscSeqs(V, MaxP), neg : AscSeqs(V, MaxN), ep : {e[1] : e \in EasyPairs},
          en : {e[2] : e \in EasyPairs}, sc : Labels, ec : Labels] :
     /\ <<o.ep, o.en>> \in EasyPairs
     /\ Len(o.pos) > 0 /\ Len(o.neg) > 0}

VARIABLES obj, mat
vars == <<obj, mat>>

Init == obj \in Objects /\ mat = FALSE
Materialise ==
  /\ ~mat /\ mat' = TRUE
  /\ obj' = MaterialiseObj(obj, MinSet(ValuesOf(obj)), MaxSet(ValuesOf(obj)))
Next == Materialise
Spec == Init /\ [][Next]_vars

TargetsOf(o, m) ==
  LET N == MetricPop(o, m)
  IN UNION {{R(k, q * N) : k \in (-q)..(q * N + q)} : q \in Qs}

(* same matrices at every threshold strictly inside the innermost            *)
(* materialised samples                                                      *)
SameMatrices ==
  [][mat' /\ ~mat =>
       \A t \in (2 * MinSet(ValuesOf(obj)) - 1)..(2 * MaxSet(ValuesOf(obj)) + 1) :
           CountCM(obj', t) = CountCM(obj, t)]_vars

(* same linear threshold whenever the materialised threshold lies within the *)
(* range of the relevant scored samples                                      *)
InRange(thr, S) == thr[1] = "val" /\ RLe(RInt(S[1]), <<thr[2], thr[3]>>)
                                  /\ RLe(<<thr[2], thr[3]>>, RInt(S[Len(S)]))
SameThresholds ==
  [][mat' /\ ~mat =>
       \A m \in Metrics : \A r \in TargetsOf(obj, m) :
          LET tm == ThresholdCoded(obj', m, r, "linear")
              to == ThresholdCoded(obj, m, r, "linear")
          IN InRange(tm, RelScores(obj, m)) =>
                (* "same" up to one ulp: a sentinel differs from the extreme score *)
                (* by one ulp, and thresholds are compared up to a few ulp         *)
                REq(SentQ(tm, RelScores(obj', m)), SentQ(to, RelScores(obj, m)))]_vars

(* populations agree, so the target grids of the two objects coincide        *)
SamePopulations ==
  [][mat' /\ ~mat => \A m \in Metrics : MetricPop(obj', m) = MetricPop(obj, m)]_vars

EmitCases ==
  TLCGet("stats").distinct >= 0 /\
  JsonSerialize(IOEnv.CASES_FILE, [k |-> K, qs |-> SetToSeq(Qs), cases |-> SetToSeq(Objects)])
=============================================================================
