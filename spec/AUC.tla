-------------------------------- MODULE AUC --------------------------------
(* Area under the ROC curve (Scores.auc, scores.py:803-852).                 *)
(*   MannWhitney     the documented meaning of the full AUC                  *)
(*   StepArea        exact area under the empirical step ROC (no cross-class *)
(*                   ties), any window                                       *)
(*   TrapezoidCoded  what the code does: both axes evaluated one ulp either  *)
(*                   side of every score, window by two searchsorted cuts,   *)
(*                   flat extension at the cuts, trapezoid rule, abs         *)
EXTENDS ScoresObj

RECURSIVE SumRat(_)
SumRat(s) == IF s = <<>> THEN RZero ELSE RAdd(Head(s), SumRat(Tail(s)))

(* ---- documented meaning --------------------------------------------------*)
(* positive i is ranked on the positive side of negative j                   *)
Better(o, p, n) == IF o.sc = "pos" THEN p > n ELSE p < n
MannWhitney(o) ==
  LET wins == Cardinality({<<i, j>> \in (DOMAIN o.pos) \X (DOMAIN o.neg) : Better(o, o.pos[i], o.neg[j])})
      ties == Cardinality({<<i, j>> \in (DOMAIN o.pos) \X (DOMAIN o.neg) : o.pos[i] = o.neg[j]})
      (* easy positives beat every negative, every positive beats an easy negative *)
      easy2 == 2 * (o.ep * NNeg(o) + Len(o.pos) * o.en)
  IN R(2 * wins + ties + easy2, 2 * NPos(o) * NNeg(o))

(* ---- exact step area, FPR on x and TPR on y, no cross-class ties ----------*)
(* The k-th negative (from the most positive-looking one) contributes the     *)
(* horizontal segment x in [(k-1)/Nn, k/Nn] at height (#positives ranked      *)
(* before it)/Np; easy negatives come last (height 1), easy positives first.  *)
Overlap(a, b, lo, hi) ==           \* length of [a,b] /\ [lo,hi]
  LET l == RMax(a, lo)  h == RMin(b, hi) IN IF RLt(l, h) THEN RSub(h, l) ELSE RZero
NegOrder(o) == IF o.sc = "pos" THEN RevSeq(o.neg) ELSE o.neg   \* most positive-looking first
StepArea(o, lo, hi) ==
  LET nn == NNeg(o)
      np == NPos(o)
      ord == NegOrder(o)
      height(k) == IF k <= Len(ord)
                   THEN R(o.ep + Cardinality({i \in DOMAIN o.pos : Better(o, o.pos[i], ord[k])}), np)
                   ELSE ROne
  IN SumRat([k \in 1..nn |-> RMul(Overlap(R(k - 1, nn), R(k, nn), lo, hi), height(k))])

(* ---- as coded --------------------------------------------------------------*)
AxisRate(o, axis, t2) == MetricRate(axis, CountCM(o, t2))
(* ascending sequence of the evaluation points 2v-1, 2v+1 for every score     *)
RECURSIVE AscOf(_)
AscOf(S) == IF S = {} THEN <<>> ELSE LET x == MinSet(S) IN <<x>> \o AscOf(S \ {x})
EvalPoints(o) == AscOf(UNION {{2 * v - 1, 2 * v + 1} : v \in ValuesOf(o)})

Trapz(xs, ys) ==
  SumRat([k \in 1..(Len(xs) - 1) |->
            RMul(RSub(xs[k + 1], xs[k]), RMul(RAdd(ys[k + 1], ys[k]), R(1, 2)))])

(* the polyline the code integrates: both axes at every evaluation point,     *)
(* reversed if x decreases                                                    *)
Curve(o, xaxis, yaxis) ==
  LET pts == EvalPoints(o)
      n   == Len(pts)
      x0  == [i \in 1..n |-> AxisRate(o, xaxis, pts[i])]
      y0  == [i \in 1..n |-> AxisRate(o, yaxis, pts[i])]
      rev == RLt(x0[n], x0[1])
  IN [x |-> IF rev THEN RevSeq(x0) ELSE x0, y |-> IF rev THEN RevSeq(y0) ELSE y0]

AreaOn(c, lower, upper) ==
  LET x == c.x
      y == c.y
      n == Len(x)
      l0  == Cardinality({i \in 1..n : RLt(x[i], lower)})      \* searchsorted side=left
      r0  == Cardinality({i \in 1..n : RLe(x[i], upper)})      \* searchsorted side=right
      left  == IF l0 < n - 1 THEN l0 ELSE n - 1                 \* 0-based
      right == IF r0 > 1 THEN r0 ELSE 1
      mid(s) == IF right > left THEN SubSeq(s, left + 1, right) ELSE <<>>
      xs  == <<lower>> \o mid(x) \o <<upper>>
      ys  == <<y[left + 1]>> \o mid(y) \o <<y[right]>>
  IN RAbs(Trapz(xs, ys))

TrapezoidCoded(o, lower, upper, xaxis, yaxis) == AreaOn(Curve(o, xaxis, yaxis), lower, upper)
=============================================================================
