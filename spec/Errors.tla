-------------------------------- MODULE Errors --------------------------------
(* The documented error paths of the library as part of the specification: every  *)
(* named call below is an action Raise(name) that is enabled exactly under the     *)
(* stated condition and whose only effect is the named exception (no object is     *)
(* created or changed).  The trace specification Trace_Errors accepts a recorded   *)
(* Raise event only if the exception is the one this table prescribes.             *)
(* (Not one of the listed properties: disagreements are reported as               *)
(* SPEC-COVERAGE notes, not as violations.)                                        *)
EXTENDS TLC

ErrorTable ==
  (* threshold setting *)
  "thr_unknown_method"        :> "ValueError"   \* method not in {linear, lower, higher}
  @@ "thr_empty_class"        :> "ValueError"   \* threshold_at_<m> with no sample of the relevant class
  @@ "tam_too_few_values"     :> "ValueError"   \* threshold_at_metric with < 2 distinct evaluation points
  @@ "find_root_precondition" :> "ValueError"   \* _find_root without f(a) <= 0 <= f(b)
  (* bootstrap configuration *)
  @@ "boot_smoothing_single_pass" :> "ValueError"
  @@ "boot_proportion_no_ratio"   :> "ValueError"
  @@ "boot_unknown_method"        :> "ValueError"   \* a string that names no sampling method
  @@ "boot_not_str_not_callable"  :> "ValueError"
  @@ "bootci_bc_without_estimate" :> "ValueError"   \* utils.bootstrap_ci(method=bc/bca, theta_hat=None)
  @@ "bootci_unknown_method"      :> "ValueError"
  (* ConfusionMatrix constructor *)
  @@ "cm_labels_and_matrix"      :> "ValueError"
  @@ "cm_predictions_and_matrix" :> "ValueError"
  @@ "cm_weights_and_matrix"     :> "ValueError"
  @@ "cm_no_labels"              :> "ValueError"
  @@ "cm_no_predictions"         :> "ValueError"
  @@ "cm_weights_length"         :> "ValueError"
  @@ "cm_ndim_lt_2"              :> "ValueError"
  @@ "cm_not_square"             :> "ValueError"
  @@ "cm_lt_2_classes"           :> "ValueError"
  @@ "cm_class_count_mismatch"   :> "ValueError"
  @@ "cm_duplicate_classes"      :> "ValueError"
  @@ "cm_binary_not_two"         :> "ValueError"
  @@ "cm_dict_classes_mismatch"  :> "ValueError"
  @@ "cm_dict_rows_mismatch"     :> "ValueError"
  @@ "cm_df_rows_cols_differ"    :> "ValueError"
  @@ "cm_df_classes_mismatch"    :> "ValueError"
  @@ "cm_as_dict_on_binary"      :> "ValueError"
  (* GroupScores *)
  @@ "gs_smoothing"        :> "ValueError"
  @@ "gs_proportion"       :> "ValueError"
  @@ "gs_unknown_strat"    :> "ValueError"
  @@ "gs_unknown_group"    :> "ValueError"
  @@ "gs_unknown_method"   :> "ValueError"
  (* showbias *)
  @@ "showbias_missing_column" :> "AssertionError"
  @@ "showbias_not_a_frame"    :> "AssertionError"
  @@ "showbias_bad_normalize"  :> "ValueError"
  @@ "showbias_bad_group_type" :> "TypeError"
  (* ROC / datasets / labels *)
  @@ "roc_unknown_axis"        :> "ValueError"
  @@ "normal_roc_no_argument"  :> "ValueError"
  @@ "normal_roc_both_arguments" :> "ValueError"
  @@ "bernoulli_no_size"       :> "ValueError"
  @@ "correlated_no_size"      :> "ValueError"
  @@ "binary_label_unknown"    :> "ValueError"
  @@ "fraud_out_of_range"      :> "ValueError"
=============================================================================
