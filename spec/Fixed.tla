------------------------------- MODULE Fixed -------------------------------
(* Fixed-point numbers: an integer x stands for x / 10^6.  TLC integers are  *)
(* 32 bit and overflow is a run-time error, so products are computed by limb *)
(* splitting.  Tables of the transcendental primitives (normal quantiles,    *)
(* cdf, square roots, alpha^(1/n)) are generated at setup time from the      *)
(* Python standard library - independently of SciPy - and loaded from JSON.  *)
EXTENDS Integers, Sequences, TLC, Json, IOUtils

FS == 1000000
Tables == JsonDeserialize(IOEnv.TABLES_FILE)

FAbs(x) == IF x < 0 THEN -x ELSE x
(* |a|, |b| < 2^31/1000 ~ 2.1e6 ... each partial product stays below 2^31     *)
FMulPos(a, b) ==
  LET a1 == a \div 1000  a0 == a % 1000
      b1 == b \div 1000  b0 == b % 1000
  IN a1 * b1 + (a1 * b0 + a0 * b1) \div 1000 + (a0 * b0 + ((a1 * b0 + a0 * b1) % 1000) * 1000) \div FS
FMul(a, b) == IF (a < 0) = (b < 0) THEN FMulPos(FAbs(a), FAbs(b)) ELSE -FMulPos(FAbs(a), FAbs(b))
(* a / b for fixed-point a, b (b # 0), result fixed point; |a| < 2147        *)
(* n / d (d > 0) as fixed point without overflowing: integer part, then six      *)
(* decimals two at a time                                                         *)
Quot6(n, d) ==
  LET sgn == IF n < 0 THEN -1 ELSE 1
      m == IF n < 0 THEN -n ELSE n
      q0 == m \div d  r0 == m % d
      d1 == (r0 * 100) \div d  r1 == (r0 * 100) % d
      d2 == (r1 * 100) \div d  r2 == (r1 * 100) % d
      d3 == (r2 * 100) \div d
  IN sgn * (q0 * FS + d1 * 10000 + d2 * 100 + d3)
Close(a, b, tol) == (a - b <= tol) /\ (b - a <= tol)

AlphaKey(a) == ToString(a)                  \* alpha in permille -> table key
Z6(a)  == Tables.z6[AlphaKey(a)]            \* Phi^-1(1 - alpha/2)
ZL6(a) == Tables.zl6[AlphaKey(a)]           \* Phi^-1(alpha/2)
SE6(k2, n2) == Tables.se6[n2 + 1][k2 + 1]   \* sqrt(p(1-p)/n), half-unit counts
Root6(a, n) == Tables.root6[AlphaKey(a)][n + 1]
Sqrt6(m) == Tables.sqrt6[m + 1]
PPF6(k, n) == Tables.ppf6[n + 1][k + 1]
(* Phi(z) for fixed-point z, linear interpolation in the 1e-3 grid           *)
Phi6(z) ==
  IF z <= -6 * FS THEN 0 ELSE IF z >= 6 * FS THEN FS ELSE
  LET u == z + 6 * FS           \* >= 0
      i == u \div 1000          \* grid index
      f == u % 1000
      a == Tables.phi6[i + 1]
      b == Tables.phi6[i + 2]
  IN a + ((b - a) * f) \div 1000
============================================================================
