------------------------------ MODULE ShowBias ------------------------------
(* showbias (showbias.py): per group, the confusion-matrix metric of exactly    *)
(* that group's rows, optionally normalised, optionally with bootstrap limits.  *)
(* A frame is a sequence of rows <<g1, g2, label, score>>; group values are      *)
(* strings; a group KEY is the tuple of the values of the grouping columns.      *)
EXTENDS BinaryCM, FiniteSets, TLC

KeyOf(row, ncols) == IF ncols = 1 THEN <<row[1]>> ELSE <<row[1], row[2]>>
Keys(frame, ncols) == {KeyOf(frame[i], ncols) : i \in DOMAIN frame}
RowsOf(frame, ncols, key) == {i \in DOMAIN frame : KeyOf(frame[i], ncols) = key}

(* decision rule (README table) on abstract scores, doubled-coordinate threshold *)
Positive(sc, ec, v, t2) ==
  IF sc = "pos" THEN (IF ec = "pos" THEN 2 * v >= t2 ELSE 2 * v > t2)
                ELSE (IF ec = "pos" THEN 2 * v <= t2 ELSE 2 * v < t2)
(* <<TP, FN, FP, TN>> of a set of row indices                                    *)
CMOf(frame, idx, posLabel, sc, ec, t2) ==
  LET P == {i \in idx : frame[i][3] = posLabel}
      N == idx \ P
      tp == Cardinality({i \in P : Positive(sc, ec, frame[i][4], t2)})
      fp == Cardinality({i \in N : Positive(sc, ec, frame[i][4], t2)})
  IN <<tp, Cardinality(P) - tp, fp, Cardinality(N) - fp>>

(* metric names of ConfusionMatrix usable by showbias (rates and counts)         *)
CountNames == {"tp", "fn", "fp", "tn", "p", "n", "top", "ton", "pop"}
CountOf(name, m) ==
  CASE name = "tp" -> bTP(m) [] name = "fn" -> bFN(m) [] name = "fp" -> bFP(m) [] name = "tn" -> bTN(m)
    [] name = "p" -> bP(m) [] name = "n" -> bN(m) [] name = "top" -> bTOP(m) [] name = "ton" -> bTON(m)
    [] name = "pop" -> bPOP(m)
MetricOf(name, m) == IF name \in CountNames THEN <<CountOf(name, m), 1>> ELSE RateOf(AliasOf(name), m)

GroupMetric(frame, ncols, key, name, posLabel, sc, ec, t2) ==
  MetricOf(name, CMOf(frame, RowsOf(frame, ncols, key), posLabel, sc, ec, t2))
OverallMetric(frame, name, posLabel, sc, ec, t2) ==
  MetricOf(name, CMOf(frame, DOMAIN frame, posLabel, sc, ec, t2))

(* normalisation (showbias.py:220-265): divide by the overall metric / by the     *)
(* smallest group value, unless that divisor is 0                                 *)
MinQ(S) == CHOOSE x \in S : \A y \in S : RLe(x, y)
Normalised(frame, ncols, key, name, posLabel, sc, ec, t2, mode) ==
  LET v == GroupMetric(frame, ncols, key, name, posLabel, sc, ec, t2)
      d == IF mode = "by_overall" THEN OverallMetric(frame, name, posLabel, sc, ec, t2)
           ELSE MinQ({GroupMetric(frame, ncols, k, name, posLabel, sc, ec, t2) : k \in Keys(frame, ncols)})
  IN IF mode = "none" \/ d[1] = 0 THEN v ELSE RDiv(v, d)
(* normalisation is only specified where every value involved is a number         *)
AllDefined(frame, ncols, name, posLabel, sc, ec, t2) ==
  /\ \A k \in Keys(frame, ncols) : ~IsNaN(GroupMetric(frame, ncols, k, name, posLabel, sc, ec, t2))
  /\ ~IsNaN(OverallMetric(frame, name, posLabel, sc, ec, t2))

(* ---- the key construction as coded: join with '_' / split on '_' ----------------*)
(* a group value is modelled as its sequence of '_'-free tokens ("a_b" = <<"a","b">>) *)
JoinTokens(vals) == LET RECURSIVE J(_) J(s) == IF s = <<>> THEN <<>> ELSE Head(s) \o J(Tail(s)) IN J(vals)
(* splitting the joined key yields one label per TOKEN, not per column             *)
SplitFaithful(vals) == \A i \in DOMAIN vals : Len(vals[i]) = 1
=============================================================================
