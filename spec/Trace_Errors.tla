----------------------------- MODULE Trace_Errors -----------------------------
EXTENDS Errors, Sequences, Integers, Json, IOUtils, TLCExt
Log == ndJsonDeserialize(IOEnv.TRACE_FILE)
VARIABLES l
vars == <<l>>
Init == l = 1
TraceRaise ==
  /\ l <= Len(Log) /\ Log[l].op = "Raise" /\ l' = l + 1
  /\ LET e == Log[l] IN
       \/ (e.call \in DOMAIN ErrorTable /\ ErrorTable[e.call] = e.exc)
       \/ PrintT(<<"FAILED", e.id, "EXT.error_path." \o e.call>>)
Next == TraceRaise
Spec == Init /\ [][Next]_vars
AllConsumed == TLCGet("stats").diameter - 1 = Len(Log)
=============================================================================
