------------------------------ MODULE Trace_C17 ------------------------------
(* Judge for C17: recorded results of utils.invert_pl_function and of            *)
(* Scores.threshold_at_metric (which is DEFINED as that inversion applied to the  *)
(* metric at the chosen evaluation points, so equality with the model is the      *)
(* property there).                                                               *)
EXTENDS InvertPL, ScoresObj, TLC, Json, IOUtils, TLCExt

Log == ndJsonDeserialize(IOEnv.TRACE_FILE)
VARIABLES l, store
vars == <<l, store>>
Report(e, fails) == \A c \in fails : PrintT(<<"FAILED", e.id, c>>)
Failing(S) == {p[1] : p \in {q \in S : ~q[2]}}
IsEvent(op) == l <= Len(Log) /\ Log[l].op = op /\ l' = l + 1
ObjOfRec(r) == Obj(r.pos, r.neg, r.ep, r.en, r.sc, r.ec)
Init == l = 1 /\ store = <<>>

Q(s) == [i \in DOMAIN s |-> <<s[i][1], s[i][2]>>]
GoodQ(s) == \A i \in DOMAIN s : s[i][2] > 0
SameSeq(a, b) == Len(a) = Len(b) /\ \A i \in DOMAIN a : REq(a[i], b[i])

TraceInvert ==
  /\ IsEvent("invert") /\ UNCHANGED store
  /\ LET e == Log[l]
         x == Q(e.x)
         y == Q(e.y)
         n == Len(e.t)
         ok == e.exc = "" /\ Len(e.out) = n /\ \A j \in 1..n : GoodQ(e.out[j])
     IN Report(e, Failing({
          <<"C17.raised", e.exc = "">>,
          <<"C17.one_entry_per_target", e.exc # "" \/ (ok /\ e.container_ok)>>,
          <<"C17.returns_true_solutions", ~ok \/ \A j \in 1..n : SolutionsOK(x, y, Q(e.t)[j], Q(e.out[j]))>>,
          <<"DRIFT.invert_model", ~ok \/ \A j \in 1..n : SameSeq(Q(e.out[j]), Coded(x, y, Q(e.t)[j]))>>}))

TraceNew ==
  /\ IsEvent("New")
  /\ LET e == Log[l]
         a == e.args
         o == NewObj(a.p, a.n, a.ep, a.en, a.sc, a.ec, a.sorted)
     IN /\ store' = (e.h :> o) @@ store
        /\ Report(e, Failing({<<"C17.raised", e.exc = "">>}))

QPos2(q) == IF q[1] % q[2] = 0 THEN 2 * (q[1] \div q[2]) ELSE 2 * RFloor(q) + 1
RateQ(r) == IF r = NaN THEN <<0, 0>> ELSE r
(* "x2_<rate>" / "x4_<rate>": the rate scaled by 2 / 4 (exact in binary floating point) - the       *)
(* callables a caller builds on the fly, one per call                                               *)
Scaled == {"x2_tpr", "x2_fnr", "x2_tnr", "x2_fpr", "x2_topr", "x2_tonr",
           "x4_tpr", "x4_fnr", "x4_tnr", "x4_fpr", "x4_topr", "x4_tonr"}
BaseOf(m) == CHOOSE b \in {"tpr", "fnr", "tnr", "fpr", "topr", "tonr"} : m = "x2_" \o b \/ m = "x4_" \o b
MetricAt(o, m, p) ==
  IF m = "abs_tpr_half"
  THEN RAbs(RSub(RateQ(MetricRate("tpr", CountCM(o, QPos2(p)))), R(1, 2)))
  ELSE IF m \in Scaled
  THEN LET r == RateQ(MetricRate(BaseOf(m), CountCM(o, QPos2(p))))
           w == IF SubSeq(m, 1, 2) = "x2" THEN 2 ELSE 4
       IN IF r[2] = 0 THEN r ELSE RMul(RInt(w), r)
  ELSE RateQ(MetricRate(m, CountCM(o, QPos2(p))))
Linspace(a, b, k) == [i \in 1..k |-> RAdd(a, RMul(R(i - 1, k - 1), RSub(b, a)))]
RECURSIVE InsertSorted(_, _)
InsertSorted(s, v) == IF s = <<>> THEN <<v>> ELSE IF v <= Head(s) THEN <<v>> \o s ELSE <<Head(s)>> \o InsertSorted(Tail(s), v)
RECURSIVE MergeAsc(_, _)
MergeAsc(a, b) == IF b = <<>> THEN a ELSE MergeAsc(InsertSorted(a, Head(b)), Tail(b))

TraceTAM ==
  /\ IsEvent("threshold_at_metric") /\ UNCHANGED store
  /\ LET e == Log[l]
         o == store[e.h]
         all == MergeAsc(o.pos, o.neg)
         enough == IF e.mode = "all" THEN Len(all) >= 2
                   ELSE IF e.mode = "k" THEN Len(all) >= 1 /\ all[1] < all[Len(all)] ELSE TRUE
         P == IF e.mode = "all" THEN [i \in DOMAIN all |-> RInt(all[i])]
              ELSE IF e.mode = "k" THEN Linspace(RInt(all[1]), RInt(all[Len(all)]), e.k)
              ELSE Q(e.pts)
         Y == [i \in DOMAIN P |-> MetricAt(o, e.metric, P[i])]
         n == Len(e.t)
         ok == e.exc = "" /\ Len(e.out) = n /\ \A j \in 1..n : GoodQ(e.out[j])
     IN Report(e, Failing({
          <<"C17.too_few_values_raises", enough \/ e.exc = "ValueError">>,
          <<"C17.raised", ~enough \/ e.exc = "">>,
          <<"C17.one_entry_per_target", ~enough \/ e.exc # "" \/ (ok /\ e.container_ok)>>,
          (* exact for the named rate metrics (their floats k/n are correctly rounded, so  *)
          (* comparisons with a target k'/n' are exact); a callable such as |tpr - 1/2|   *)
          (* carries rounding noise that may break exact ties either way, so it is judged *)
          (* by the solution property alone                                               *)
          <<"C17.threshold_at_metric_is_the_inversion", ~enough \/ ~ok \/ e.metric = "abs_tpr_half" \/
               \A j \in 1..n : SameSeq(Q(e.out[j]), Coded(P, Y, Q(e.t)[j]))>>,
          <<"C17.returns_true_solutions", ~enough \/ ~ok \/
               \A j \in 1..n : SolutionsOK(P, Y, Q(e.t)[j], Q(e.out[j]))>>}))

Next == TraceInvert \/ TraceNew \/ TraceTAM
Spec == Init /\ [][Next]_vars
AllConsumed == TLCGet("stats").diameter - 1 = Len(Log)
=============================================================================
