------------------------------ MODULE Trace_C08 ------------------------------
(* Judge for the symmetry relations (C08).  A behaviour is                   *)
(*   New(1) probe(1)  Swap(1->2) probe(2)  Negate(1->3) probe(3)             *)
(*   Affine(1->4) probe(4)                                                    *)
(* where Negate and Affine are environment actions (the driver builds the     *)
(* transformed object from transformed inputs).  A probe records what the     *)
(* real object reports: matrices and rates at every threshold position,       *)
(* linear thresholds for the target grid, EER, AUC.  The relations are        *)
(* evaluated between the recorded probe of a derived object and the recorded  *)
(* probe of its source.                                                       *)
EXTENDS Threshold, Json, IOUtils, TLCExt

Log == ndJsonDeserialize(IOEnv.TRACE_FILE)

VARIABLES l, store, obs, link
vars == <<l, store, obs, link>>

Report(e, fails) == \A c \in fails : PrintT(<<"FAILED", e.id, c>>)
Failing(S) == {p[1] : p \in {q \in S : ~q[2]}}
IsEvent(op) == l <= Len(Log) /\ Log[l].op = op /\ l' = l + 1
ObjOfRec(r) == Obj(r.pos, r.neg, r.ep, r.en, r.sc, r.ec)

Init == l = 1 /\ store = <<>> /\ obs = <<>> /\ link = <<>>

TraceNew ==
  /\ IsEvent("New")
  /\ LET e == Log[l]
         a == e.args
         o == NewObj(a.p, a.n, a.ep, a.en, a.sc, a.ec, a.sorted)
     IN /\ store' = (e.h :> o) @@ store
        /\ UNCHANGED <<obs, link>>
        /\ Report(e, Failing({<<"C08.raised", e.exc = "">>,
                              <<"C08.new_state", e.exc # "" \/ ObjOfRec(e.post) = o>>}))

(* a derived object: the spec action computes it from the source object      *)
Derive(kind, o) == CASE kind = "swap"   -> SwapObj(o)
                     [] kind = "negate" -> NegateObj(o)
                     [] kind = "affine" -> o
                     [] kind = "materialise" ->
                          MaterialiseObj(o, MinSet(ValuesOf(o)), MaxSet(ValuesOf(o)))
TraceDerive ==
  /\ IsEvent("Derive")
  /\ LET e == Log[l]
         o == Derive(e.kind, store[e.h])
     IN /\ store' = (e.h2 :> o) @@ store
        /\ link' = (e.h2 :> <<e.kind, e.h>>) @@ link
        /\ UNCHANGED obs
        /\ Report(e, Failing({<<"C08.raised", e.exc = "">>,
                              <<"C08.derived_state", e.exc # "" \/ ObjOfRec(e.post) = o>>}))

RNegQ(a) == <<-a[1], a[2]>>
Close(a, b, tol) == (a - b <= tol) /\ (b - a <= tol)
SwapCells(c) == <<c[4], c[3], c[2], c[1]>>
Cells(c) == <<c[1], c[2], c[3], c[4]>>
SameRate(a, b) == IF a[2] = 0 \/ b[2] = 0 THEN a[2] = 0 /\ b[2] = 0 ELSE REq(a, b)

Relations(e, src, kind, o, so) ==
  LET n == Len(e.t2)
      sameGrid == Len(src.t2) = n /\ Len(e.cm) = n /\ Len(src.cm) = n
      thrOK(f(_)) == \A m \in DOMAIN e.thr :
          /\ m \in DOMAIN src.thr
          /\ Len(e.thr[m]) = Len(src.thr[m])
          /\ \A i \in 1..Len(e.thr[m]) :
               /\ e.thr[m][i][2] > 0 /\ src.thr[m][i][2] > 0
               /\ REq(e.thr[m][i], f(src.thr[m][i]))
      haveEER == e.eer.ok /\ src.eer.ok
  IN CASE kind = "swap" -> {
         <<"C08.swap_cm", sameGrid /\ \A i \in 1..n : Cells(e.cm[i]) = SwapCells(src.cm[i])>>,
         <<"C08.swap_rates", sameGrid /\ \A m \in Metrics : \A i \in 1..n :
              SameRate(src.rates[m][i], e.rates[SwapMetric(m)][i])>>}
       [] kind = "negate" -> {
         <<"C08.negate_cm", sameGrid /\ \A i \in 1..n : Cells(e.cm[i]) = Cells(src.cm[i])>>,
         <<"C08.negate_thresholds", thrOK(RNegQ)>>,
         <<"C08.negate_eer", (TieFree(o) /\ haveEER) =>
              /\ Close(e.eer.e6, src.eer.e6, 2)
              /\ Close(e.eer.t4, -src.eer.t4, 5)>>,
         (* with ties the mirrored search may stop at another point of the same plateau, but the   *)
         (* EER VALUE of the mirrored object is the same (seed C08-12: one of the two mirrored       *)
         (* perfect-separation shortcuts edited, classes touching in one score)                     *)
         <<"C08.negate_eer_value_with_ties", haveEER => Close(e.eer.e6, src.eer.e6, 2)>>}
       [] kind = "affine" -> {
         <<"C08.affine_cm", sameGrid /\ \A i \in 1..n : Cells(e.cm[i]) = Cells(src.cm[i])>>,
         <<"C08.affine_rates", sameGrid /\ \A m \in Metrics : \A i \in 1..n :
              SameRate(src.rates[m][i], e.rates[m][i])>>,
         <<"C08.affine_thresholds", thrOK(LAMBDA x : x)>>,
         <<"C08.affine_eer", haveEER =>
              /\ Close(e.eer.e6, src.eer.e6, 2)
              /\ (TieFree(o) => Close(e.eer.t4, src.eer.t4, 5))>>,
         <<"C08.affine_auc", SameRate(e.auc, src.auc) /\ SameRate(e.pauc, src.pauc)
                             /\ Len(e.axes) = Len(src.axes) /\ \A i \in DOMAIN e.axes : SameRate(e.axes[i], src.axes[i])>>}
       (* C09: so = the object declaring easy samples, o = its materialisation  *)
       [] kind = "materialise" -> {
         <<"C09.same_matrices", sameGrid /\ \A i \in 1..n :
              (e.t2[i] >= 2 * MinSet(ValuesOf(so)) - 1 /\ e.t2[i] <= 2 * MaxSet(ValuesOf(so)) + 1)
                 => Cells(e.cm[i]) = Cells(src.cm[i])>>,
         <<"C09.same_thresholds", \A m \in DOMAIN e.thr :
              /\ m \in DOMAIN src.thr /\ Len(e.thr[m]) = Len(src.thr[m])
              /\ \A i \in 1..Len(e.thr[m]) :
                   LET S == RelScores(so, m) IN
                   (e.thr[m][i][2] > 0 /\ RLe(RInt(S[1]), e.thr[m][i])
                                       /\ RLe(e.thr[m][i], RInt(S[Len(S)])))
                     => (src.thr[m][i][2] > 0 /\ REq(e.thr[m][i], src.thr[m][i]))>>,
         <<"C09.same_auc", SameRate(e.auc, src.auc) /\ SameRate(e.pauc, src.pauc)
                           /\ SameRate(e.pauc2, src.pauc2)
                           /\ Len(e.axes) = Len(src.axes) /\ \A i \in DOMAIN e.axes : SameRate(e.axes[i], src.axes[i])>>}

TraceProbe ==
  /\ IsEvent("probe")
  /\ LET e == Log[l]
         o == store[e.h]
     IN /\ obs' = (e.h :> e) @@ obs
        /\ UNCHANGED <<store, link>>
        /\ Report(e, Failing(
             {<<"C08.raised", e.exc = "">>} \cup
             (IF e.exc = "" /\ e.h \in DOMAIN link /\ link[e.h][2] \in DOMAIN obs
                            /\ obs[link[e.h][2]].exc = ""
              THEN Relations(e, obs[link[e.h][2]], link[e.h][1], o, store[link[e.h][2]])
              ELSE {})))

(* history: the caller assigns new easy-sample counts to an object already queried  *)
TraceSetEasy ==
  /\ IsEvent("SetEasy")
  /\ LET e == Log[l]
         o == [store[e.h] EXCEPT !.ep = e.ep, !.en = e.en]
     IN /\ store' = (e.h :> o) @@ store
        /\ UNCHANGED <<obs, link>>
        /\ Report(e, Failing({<<"C08.raised", e.exc = "">>,
                              <<"C09.state_after_assigning_easy_counts", e.exc # "" \/ ObjOfRec(e.post) = o>>}))

(* a pair (virtual easy samples, the same samples materialised) too large to mirror  *)
(* (1e5..1e6 scores): thresholds in fixed point (score units / 1000) for the same    *)
(* targets, matrices at the same thresholds; [lo, hi] = the scored range             *)
TraceBigPair ==
  /\ IsEvent("big_pair") /\ UNCHANGED <<store, obs, link>>
  /\ LET e == Log[l]
         ok == e.exc = ""
     IN Report(e, Failing({
          <<"C08.raised", ok>>,
          <<"C09.same_thresholds", ~ok \/ \A m \in DOMAIN e.thrB :
               /\ m \in DOMAIN e.thrA /\ Len(e.thrA[m]) = Len(e.thrB[m])
               /\ \A i \in 1..Len(e.thrB[m]) :
                    (e.thrB[m][i] >= e.lo /\ e.thrB[m][i] <= e.hi) => Close(e.thrA[m][i], e.thrB[m][i], 1)>>,
          <<"C09.same_matrices", ~ok \/ (Len(e.cmA) = Len(e.cmB) /\ \A i \in 1..Len(e.cmA) :
               Cells(e.cmA[i]) = Cells(e.cmB[i]))>>,
          <<"C09.same_auc", ~ok \/ Close(e.aucA9, e.aucB9, 2)>>}))

(* the subclass GroupScores: per-group matrices of the original, of swap(), and of the   *)
(* original again (whichever is asked first must not influence the other)              *)
TraceGroupSwap ==
  /\ IsEvent("group_swap") /\ UNCHANGED <<store, obs, link>>
  /\ LET e == Log[l]
         ok == e.exc = ""
         G == DOMAIN e.a
     IN Report(e, Failing({
          <<"C08.raised", ok>>,
          <<"C08.swap_group_cm", ~ok \/
               (/\ DOMAIN e.b = G /\ DOMAIN e.a2 = G
                /\ \A g \in G : /\ Len(e.b[g]) = Len(e.a[g]) /\ Len(e.a2[g]) = Len(e.a[g])
                                 /\ \A i \in DOMAIN e.a[g] :
                                      /\ Cells(e.b[g][i]) = SwapCells(e.a[g][i])
                                      /\ Cells(e.a2[g][i]) = Cells(e.a[g][i]))>>}))

(* history: the caller re-assigns the configuration attributes of a live object (as enum members  *)
(* or as the plain strings the label type compares equal to)                                      *)
TraceSetConfig ==
  /\ IsEvent("SetConfig")
  /\ LET e == Log[l]
         o == [store[e.h] EXCEPT !.sc = e.sc, !.ec = e.ec]
     IN /\ store' = (e.h :> o) @@ store /\ UNCHANGED <<obs, link>>
        /\ Report(e, Failing({<<"C08.raised", e.exc = "">>,
                              <<"C08.state_after_assigning_configuration", e.exc # "" \/ ObjOfRec(e.post) = o>>}))

Next == TraceGroupSwap \/ TraceNew \/ TraceDerive \/ TraceProbe \/ TraceSetEasy \/ TraceBigPair \/ TraceSetConfig
Spec == Init /\ [][Next]_vars
AllConsumed == TLCGet("stats").diameter - 1 = Len(Log)
=============================================================================
