------------------------------- MODULE MC_C13 -------------------------------
(* Bounded model for C13: a replicate vector grows one value at a time        *)
(* (Append, NaN included); the estimate is fixed per behaviour.  Invariants:   *)
(* ordered limits inside the finite range, nesting in alpha; action           *)
(* properties: NaN replicates and reordering change nothing, affine maps are   *)
(* followed.                                                                   *)
EXTENDS BootCI, TLC, Json, IOUtils

CONSTANTS Vals, MaxLen, Ests, Alphas
AlphasAll == {10, 50, 100, 200, 500, 900}
EstsQuick == {-1, 1, 2, 4}
EstsThorough == {-1, 0, 1, 2, 3, 4}
ValsQuick == {0, 1, 3}
ValsThorough == {0, 1, 2, 3}
Methods == {"quantile", "bc", "bca"}

VARIABLES theta, est
vars == <<theta, est>>
Init == theta = <<>> /\ est \in Ests
Add(v) == Len(theta) < MaxLen /\ theta' = Append(theta, v) /\ UNCHANGED est
SwapLast == /\ Len(theta) >= 2 /\ UNCHANGED est
            /\ theta' = [theta EXCEPT ![Len(theta)] = theta[Len(theta) - 1],
                                      ![Len(theta) - 1] = theta[Len(theta)]]
Next == (\E v \in Vals \cup {NaNTok} : Add(v)) \/ SwapLast
Spec == Init /\ [][Next]_vars

HasData == NFinite(theta) >= 1
CI6(th, e, a, m) ==
  IF m = "quantile"
  THEN LET q == QuantileCI(th, a) IN <<(q[1][1] * FS) \div q[1][2], (q[2][1] * FS) \div q[2][2]>>
  ELSE CorrectedCI6(th, e, a, m)
Ok(m, a) == m # "bca" \/ PoleFree(theta, est, a)
Min6 == SortedFinite(theta)[1] * FS
Max6 == SortedFinite(theta)[NFinite(theta)] * FS

InvOrdered == HasData => \A m \in Methods, a \in Alphas :
   Ok(m, a) => CI6(theta, est, a, m)[1] <= CI6(theta, est, a, m)[2]
InvInRange == HasData => \A m \in Methods, a \in Alphas :
   LET c == CI6(theta, est, a, m) IN Min6 <= c[1] /\ c[2] <= Max6
InvNested == HasData => \A m \in Methods, a \in Alphas, b \in Alphas :
   (a < b /\ Ok(m, a) /\ Ok(m, b)) =>
      LET x == CI6(theta, est, a, m)  y == CI6(theta, est, b, m)
      IN x[1] <= y[1] + 2 /\ y[2] <= x[2] + 2
(* a NaN replicate changes nothing; neither does reordering                    *)
NaNIgnored == [][(HasData /\ Len(theta') = Len(theta) + 1 /\ theta'[Len(theta')] = NaNTok) =>
   \A m \in Methods, a \in Alphas : CI6(theta', est, a, m) = CI6(theta, est, a, m)]_vars
OrderIgnored == [][(HasData /\ Len(theta') = Len(theta)) =>
   \A m \in Methods, a \in Alphas : CI6(theta', est, a, m) = CI6(theta, est, a, m)]_vars
(* equivariance under x -> 2x + 1 (an environment transformation, not a step)   *)
Aff(th) == [i \in DOMAIN th |-> IF th[i] = NaNTok THEN NaNTok ELSE 2 * th[i] + 1]
InvAffine == HasData => \A m \in Methods, a \in Alphas :
   Ok(m, a) =>
   LET x == CI6(theta, est, a, m)  y == CI6(Aff(theta), 2 * est + 1, a, m)
   IN Close(y[1], 2 * x[1] + FS, 60) /\ Close(y[2], 2 * x[2] + FS, 60)

Cases == UNION {[1..n -> Vals \cup {NaNTok}] : n \in 1..MaxLen}
EmitCases ==
  TLCGet("stats").distinct >= 0 /\
  JsonSerialize(IOEnv.CASES_FILE,
    [ests |-> SetToSeq(Ests), alphas |-> SetToSeq(Alphas), nan |-> NaNTok, cases |-> SetToSeq(Cases)])
=============================================================================
