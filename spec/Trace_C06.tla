------------------------------ MODULE Trace_C06 ------------------------------
(* Judge for C06.  An "eer" event records what Scores.eer() returned - the     *)
(* EER as a rational (and fixed point), the threshold in abstract coordinates  *)
(* - and the confusion matrix the SAME object reports at that threshold.       *)
(* Handles: 1 = the object, 2 = the same abstract object under another         *)
(* increasing affine map, 3 = negated scores with flipped score_class.         *)
EXTENDS EER, Json, IOUtils, TLCExt

Log == ndJsonDeserialize(IOEnv.TRACE_FILE)
VARIABLES l, store, base
vars == <<l, store, base>>
Report(e, fails) == \A c \in fails : PrintT(<<"FAILED", e.id, c>>)
Failing(S) == {p[1] : p \in {q \in S : ~q[2]}}
IsEvent(op) == l <= Len(Log) /\ Log[l].op = op /\ l' = l + 1
ObjOfRec(r) == Obj(r.pos, r.neg, r.ep, r.en, r.sc, r.ec)
Init == l = 1 /\ store = <<>> /\ base = <<>>

TraceNew ==
  /\ IsEvent("New")
  /\ LET e == Log[l]
         a == e.args
         o == NewObj(a.p, a.n, a.ep, a.en, a.sc, a.ec, a.sorted)
     IN /\ store' = (e.h :> o) @@ store /\ UNCHANGED base
        /\ Report(e, Failing({<<"C06.raised", e.exc = "">>,
                              <<"C06.new_state", e.exc # "" \/ ObjOfRec(e.post) = o>>}))

(* the caller assigns new easy-sample counts to the public attributes of an object   *)
(* that has already been queried                                                    *)
TraceSetEasy ==
  /\ IsEvent("SetEasy")
  /\ LET e == Log[l]
         o == [store[e.h] EXCEPT !.ep = e.ep, !.en = e.en]
     IN /\ store' = (e.h :> o) @@ store /\ UNCHANGED base
        /\ Report(e, Failing({<<"C06.raised", e.exc = "">>,
                              <<"C06.new_state", e.exc # "" \/ ObjOfRec(e.post) = o>>}))

Near(a, b, tol) == (a - b <= tol) /\ (b - a <= tol)
Cells(c) == <<c[1], c[2], c[3], c[4]>>

TraceEER ==
  /\ IsEvent("eer")
  /\ LET e  == Log[l]
         o  == store[e.h]
         ok == e.exc = "" /\ e.e[2] > 0
         c  == Cells(e.cm)
         tf == TieFree(o)
         src == base
         rel == e.h # 1 /\ src # <<>> /\ src.exc = "" /\ ok
     IN /\ UNCHANGED store
        /\ base' = IF e.h = 1 THEN e ELSE base
        /\ Report(e, Failing({
             <<"C06.raised", e.exc = "">>,
             <<"C06.value", e.exc # "" \/ ok>>,
             <<"C06.range", ~ok \/ ~tf \/ (RLe(RZero, e.e) /\ RLe(e.e, ROne))>>,
             <<"C06.fpr_within_one_sample", ~ok \/ ~tf \/
                  RLe(RAbs(RSub(R(FP(c), NNeg(o)), e.e)), R(1, NNeg(o)))>>,
             <<"C06.fnr_within_one_sample", ~ok \/ ~tf \/
                  RLe(RAbs(RSub(R(FN(c), NPos(o)), e.e)), R(1, NPos(o)))>>,
             <<"C06.capped_by_hard_fractions", ~ok \/ ~tf \/
                  RLe(e.e, RMin(HardFracPos(o), HardFracNeg(o)))>>,
             <<"C06.zero_eer_means_no_errors", ~ok \/ ~e.e_is_zero \/ (FP(c) = 0 /\ FN(c) = 0)>>,
             <<"C06.affine_equivariant", ~(rel /\ e.h = 2 /\ tf) \/
                  (Near(e.e9, src.e9, 20) /\ Near(e.t6, src.t6, 50))>>,
             <<"C06.negation_equivariant", ~(rel /\ e.h = 3 /\ tf) \/
                  (Near(e.e9, src.e9, 20) /\ Near(e.t6, -src.t6, 50))>>,
             (* the subclass GroupScores built from the same (unsorted) data answers like Scores *)
             <<"C06.subclass_same_as_plain", ~(rel /\ e.h = 5) \/
                  (Near(e.e9, src.e9, 20) /\ Near(e.t6, src.t6, 50))>>,
             <<"DRIFT.eer_model", ~ok \/ ~tf \/ e.t[2] = 0 \/
                  (REq(e.e, EERCoded(o)[2]) /\ REq(e.t, EERCoded(o)[1]))>>}))

(* very large tie-free data: only class sizes and the error counts the same object  *)
(* reports at the returned threshold travel (the object itself is too big to rebuild) *)
TraceEERCounts ==
  /\ IsEvent("eer_counts") /\ UNCHANGED <<store, base>>
  /\ LET e == Log[l]
         np == e.npos + e.ep
         nn == e.nneg + e.en
         ok == e.exc = "" /\ e.e[2] > 0
     IN Report(e, Failing({
          <<"C06.raised", e.exc = "">>,
          (* e = en/ed with a small numerator: |fp/nn - e| <= 1/nn  <=>  |fp*ed - en*nn| <= ed,     *)
          (* written so that no product exceeds 32 bits                                            *)
          <<"C06.range", ~ok \/ (e.e[1] >= 0 /\ e.e[1] <= e.e[2])>>,
          <<"C06.fpr_within_one_sample", ~ok \/ e.e[1] > 2000 \/ e.fp > 2000 \/
               (e.fp * e.e[2] - e.e[1] * nn <= e.e[2] /\ e.e[1] * nn - e.fp * e.e[2] <= e.e[2])>>,
          <<"C06.fnr_within_one_sample", ~ok \/ e.e[1] > 2000 \/ e.fn > 2000 \/
               (e.fn * e.e[2] - e.e[1] * np <= e.e[2] /\ e.e[1] * np - e.fn * e.e[2] <= e.e[2])>>,
          <<"C06.zero_eer_means_no_errors", ~ok \/ ~e.e_is_zero \/ (e.fp = 0 /\ e.fn = 0)>>}))

(* history: the caller re-assigns the configuration attributes of a live object (as enum members  *)
(* or as the plain strings the label type compares equal to)                                      *)
TraceSetConfig ==
  /\ IsEvent("SetConfig")
  /\ LET e == Log[l]
         o == [store[e.h] EXCEPT !.sc = e.sc, !.ec = e.ec]
     IN /\ store' = (e.h :> o) @@ store /\ UNCHANGED base
        /\ Report(e, Failing({<<"C06.raised", e.exc = "">>,
                              <<"C06.state_after_assigning_configuration", e.exc # "" \/ ObjOfRec(e.post) = o>>}))

(* history: the caller re-binds one of the (sorted) score arrays of a live object               *)
TraceSetScores ==
  /\ IsEvent("SetScores")
  /\ LET e == Log[l]
         o == IF e.cls = "pos" THEN [store[e.h] EXCEPT !.pos = e.seq] ELSE [store[e.h] EXCEPT !.neg = e.seq]
     IN /\ store' = (e.h :> o) @@ store /\ UNCHANGED base
        /\ Report(e, Failing({<<"C06.raised", e.exc = "">>,
                              <<"C06.state_after_rebinding_scores", e.exc # "" \/ ObjOfRec(e.post) = o>>}))

(* history: copy.copy / copy.deepcopy / a pickle round trip of a live object gives an equal object *)
TraceCopy ==
  /\ IsEvent("Copy")
  /\ LET e == Log[l]
         o == store[e.h]
     IN /\ store' = (e.h2 :> o) @@ store /\ UNCHANGED base
        /\ Report(e, Failing({<<"C06.raised", e.exc = "">>,
                              <<"C06.copy_equals_source", e.exc # "" \/ ObjOfRec(e.post) = o>>}))

Next == TraceNew \/ TraceEER \/ TraceEERCounts \/ TraceSetEasy \/ TraceSetConfig \/ TraceSetScores \/ TraceCopy
Spec == Init /\ [][Next]_vars
AllConsumed == TLCGet("stats").diameter - 1 = Len(Log)
=============================================================================
