------------------------------ MODULE Trace_C20 ------------------------------
(* Judge for C20: synthetic datasets.  Discrete facts are decided exactly by     *)
(* Datasets.tla; analytic facts (normal cdf and its inverse) on fixed-point       *)
(* values, against the Phi table and as round trips of the recorded values.       *)
EXTENDS Datasets, Fixed, TLC, Json, IOUtils, TLCExt

Log == ndJsonDeserialize(IOEnv.TRACE_FILE)
VARIABLES l
vars == <<l>>
IsEvent(op) == l <= Len(Log) /\ Log[l].op = op /\ l' = l + 1
Init == l = 1
Failing(S) == {p[1] : p \in {q \in S : ~q[2]}}
Report(e, fails) == \A c \in fails : PrintT(<<"FAILED", e.id, c>>)

TraceBernoulli ==
  /\ IsEvent("bernoulli")
  /\ LET e == Log[l]
         want == BernoulliCount(e.n, e.a)
     IN Report(e, Failing({
          <<"C20.raised", e.exc = "">>,
          <<"C20.bernoulli_shape_and_values", e.exc # "" \/ (e.len = e.n /\ e.binary)>>,
          <<"C20.bernoulli_count_is_floor_np", e.exc # "" \/ e.random \/
               (e.ones = want \/ (OnGrid(e.n, e.a) /\ e.ones = want - 1))>>}))

(* p a hair below / above a/PD (by 1e-12 .. 1e-10: far beyond rounding, far less than 1/n): the    *)
(* count is floor(n p) - one less than n a / PD when that is an integer and p is below              *)
TraceBernoulliNear ==
  /\ IsEvent("bernoulli_near")
  /\ LET e == Log[l]
         base == BernoulliCount(e.n, e.a)
         want == IF e.side = "below" /\ OnGrid(e.n, e.a) THEN base - 1 ELSE base
     IN Report(e, Failing({
          <<"C20.raised", e.exc = "">>,
          <<"C20.bernoulli_shape_and_values", e.exc # "" \/ (e.len = e.n /\ e.binary)>>,
          <<"C20.bernoulli_count_is_floor_np", e.exc # "" \/ e.ones = want>>}))

TraceCorrelated ==
  /\ IsEvent("correlated")
  /\ LET e == Log[l]
         raised == e.exc = "ValueError"
     IN Report(e, Failing({
          <<"C20.no_other_exception", e.exc \in {"", "ValueError"}>>,
          (* boundary cases (a joint probability exactly 0) may go either way in floating point *)
          <<"C20.valueerror_iff_negative_probability",
               (StrictlyValid(e.a1, e.a2, e.r) => ~raised) /\ (ClearlyInvalid(e.a1, e.a2, e.r) => raised)>>,
          <<"C20.correlated_shape_and_values", raised \/ e.exc # "" \/ (e.shape_ok /\ e.binary)>>,
          <<"C20.correlated_marginals_within_three_draws", raised \/ e.exc # "" \/ e.random \/
               /\ PD * e.ones1 - e.n * e.a1 <= 3 * PD /\ e.n * e.a1 - PD * e.ones1 <= 3 * PD
               /\ PD * e.ones2 - e.n * e.a2 <= 3 * PD /\ e.n * e.a2 - PD * e.ones2 <= 3 * PD>>}))

(* NormalDataset: z = (threshold - mu) / sigma on a grid, fixed point             *)
TraceNormal ==
  /\ IsEvent("normal")
  /\ LET e == Log[l]
         n == Len(e.z6)
     IN Report(e, Failing({
          <<"C20.raised", e.exc = "">>,
          (* closed forms against the table: FNR = Phi(z_pos), FPR = 1 - Phi(z_neg)  *)
          <<"C20.rates_are_normal_cdf", e.exc # "" \/ \A i \in 1..n :
               /\ Close(e.fnr6[i], Phi6(e.z6[i]), 3) /\ Close(e.fpr6[i], FS - Phi6(e.z6[i]), 3)>>,
          (* mutually inverse, on the recorded values                                  *)
          <<"C20.threshold_and_rate_are_inverse", e.exc # "" \/ \A i \in DOMAIN e.rt :
               /\ Close(e.rt[i][2], e.rt[i][1], 2) /\ Close(e.rt[i][3], e.rt[i][1], 2)>>,
          <<"C20.roc_rates_consistent_with_thresholds", e.exc # "" \/ e.roc_ok>>,
          <<"C20.scalar_in_scalar_out", e.exc # "" \/ e.scalar_ok>>,
          <<"C20.roc_argument_checks", e.exc # "" \/ e.roc_errors_ok>>}))

TraceFromMetrics ==
  /\ IsEvent("from_metrics")
  /\ LET e == Log[l] IN
     Report(e, Failing({
          <<"C20.raised", e.exc = "">>,
          <<"C20.from_metrics_hits_operating_point", e.exc # "" \/
               (Close(e.fnr0, e.fnr_req, 2) /\ Close(e.fpr0, e.fpr_req, 2))>>,
          (* n = floor(fs / fnr) + floor(ps / fpr) with fnr = fa/fb etc.               *)
          <<"C20.from_metrics_sample_sizes", e.exc # "" \/
               LET np == Floor(R(e.fs * e.fnr_q[2], e.fnr_q[1]))
                   nn == Floor(R(e.ps * e.fpr_q[2], e.fpr_q[1]))
               IN /\ e.n \in {np + nn, np + nn - 1, np + nn - 2}
                  /\ e.n > 0
                  /\ Close(e.ppos6, Quot6(np, np + nn), 400000 \div (np + nn) + 2)>>,
          <<"C20.sample_splits_n_scores", e.exc # "" \/
               (e.sample_total = e.sample_n /\ e.sample_sc = e.sc)>>}))

(* rates 2^-k for both classes, the same support s: n = 2 * s * 2^k exactly (far beyond 64 bits for *)
(* k >= 63), half of them positives                                                               *)
TraceFromMetricsPow2 ==
  /\ IsEvent("from_metrics_pow2")
  /\ LET e == Log[l] IN
     Report(e, Failing({
          <<"C20.raised", e.exc = "">>,
          <<"C20.from_metrics_sample_sizes", e.exc # "" \/
               (e.exact_multiple /\ e.quotient_is_power_of_two /\ e.exponent = e.k /\ e.ppos_half)>>}))

Next == TraceFromMetricsPow2 \/ TraceBernoulli \/ TraceCorrelated \/ TraceNormal \/ TraceFromMetrics \/ TraceBernoulliNear
Spec == Init /\ [][Next]_vars
AllConsumed == TLCGet("stats").diameter - 1 = Len(Log)
=============================================================================
