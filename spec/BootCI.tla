------------------------------- MODULE BootCI -------------------------------
(* Bootstrap confidence limits (utils.bootstrap_ci, utils.py:36-140) as       *)
(* documented: quantile, bias-corrected (bc) and accelerated (bca) limits of  *)
(* a sequence of replicates (integers, NaN = the token NaNTok, ignored).      *)
(* 'quantile' is exact (rationals); bc/bca go through the normal cdf/ppf and  *)
(* are computed in fixed point (1e-6) with tabulated primitives.              *)
EXTENDS Fixed, Rat, FiniteSets, SequencesExt

NaNTok == -99999
Finite(theta) == SelectSeq(theta, LAMBDA x : x # NaNTok)
SortedFinite(theta) == SortSeq(Finite(theta), LAMBDA a, b : a < b)

(* NumPy's default (linear) quantile of a sorted sequence at rational level q *)
QuantileR(vs, q) ==
  LET n   == Len(vs)
      pos == RMul(q, RInt(n - 1))
      lo  == RFloor(pos)
      fr  == RSub(pos, RInt(lo))
      hi  == IF lo + 1 > n - 1 THEN n - 1 ELSE lo + 1
  IN RAdd(RInt(vs[lo + 1]), RMul(fr, RInt(vs[hi + 1] - vs[lo + 1])))
(* ... at a fixed-point level q6 in [0, FS], result fixed point               *)
Quantile6(vs, q6) ==
  LET n   == Len(vs)
      qq  == IF q6 < 0 THEN 0 ELSE IF q6 > FS THEN FS ELSE q6
      p   == qq * (n - 1)                       \* position * FS
      lo  == p \div FS
      fr  == p % FS
      hi  == IF lo + 1 > n - 1 THEN n - 1 ELSE lo + 1
  IN vs[lo + 1] * FS + fr * (vs[hi + 1] - vs[lo + 1])

(* 'quantile': alpha/2 and 1-alpha/2 empirical quantiles; a = alpha permille  *)
QuantileCI(theta, a) ==
  LET vs == SortedFinite(theta)
  IN <<QuantileR(vs, R(a, 2000)), QuantileR(vs, R(2000 - a, 2000))>>

(* fraction of (finite) replicates not exceeding the estimate                 *)
CountLE(theta, est) == Cardinality({i \in DOMAIN theta : theta[i] # NaNTok /\ theta[i] <= est})
NFinite(theta) == Len(Finite(theta))

(* fixed-point division a / b (b > 0), digits in base 100 to avoid overflow   *)
FDivPos(a, b) ==
  LET q0 == a \div b  r0 == a % b
      d1 == (r0 * 100) \div b  r1 == (r0 * 100) % b
      d2 == (r1 * 100) \div b  r2 == (r1 * 100) % b
      d3 == (r2 * 100) \div b
  IN q0 * FS + d1 * 10000 + d2 * 100 + d3
FDiv(a, b) == IF b > 0 THEN (IF a >= 0 THEN FDivPos(a, b) ELSE -FDivPos(-a, b))
                       ELSE (IF a >= 0 THEN -FDivPos(a, -b) ELSE FDivPos(-a, -b))

PosInf == 99000000
NegInf == -99000000
(* z0 = Phi^-1(p0), +-infinity at p0 = 1 / 0                                   *)
Z0(theta, est) ==
  LET k == CountLE(theta, est)  n == NFinite(theta)
  IN IF k = 0 THEN NegInf ELSE IF k = n THEN PosInf ELSE PPF6(k, n)

(* acceleration a = sum d^3 / (6 (sum d^2)^1.5), d = theta - estimate          *)
RECURSIVE SumPow(_, _, _)
SumPow(vs, est, p) == IF vs = <<>> THEN 0
                      ELSE LET d == Head(vs) - est IN
                           (IF p = 2 THEN d * d ELSE d * d * d) + SumPow(Tail(vs), est, p)
Accel6(theta, est) ==
  LET vs == Finite(theta)
      s2 == SumPow(vs, est, 2)
      s3 == SumPow(vs, est, 3)
  IN IF s2 = 0 THEN 0
     ELSE FDiv(s3 * 1000, 6 * FMul(s2 * 1000, Sqrt6(s2)))   \* s3 / (6 s2 sqrt(s2))

(* adjusted level for one tail; zt = z_{alpha/2} or z_{1-alpha/2}              *)
Level6(method, z0, acc, zt) ==
  IF z0 = PosInf THEN FS ELSE IF z0 = NegInf THEN 0
  ELSE IF method = "bc" THEN Phi6(2 * z0 + zt)
  ELSE LET s   == z0 + zt
           den == FS - FMul(acc, s)
       IN (* beyond |s/den| >= 12 the normal cdf is 0 or 1 to table precision     *)
          IF FAbs(s) >= 12 * FAbs(den)
          THEN (IF s = 0 THEN Phi6(z0) ELSE IF (s > 0) = (den >= 0) THEN FS ELSE 0)
          ELSE Phi6(z0 + FDiv(s, den))

(* <<lower, upper>> in fixed point (value * 1e6)                               *)
CorrectedCI6(theta, est, a, method) ==
  LET vs  == SortedFinite(theta)
      z0  == Z0(theta, est)
      acc == IF method = "bca" THEN Accel6(theta, est) ELSE 0
  IN <<Quantile6(vs, Level6(method, z0, acc, ZL6(a))),
       Quantile6(vs, Level6(method, z0, acc, Z6(a)))>>

(* pole condition of the property: |a (z0 + z_alpha)| < 1 for both tails       *)
PoleFree(theta, est, a) ==
  LET z0 == Z0(theta, est)  acc == Accel6(theta, est) IN
  (z0 # PosInf /\ z0 # NegInf) =>
     /\ FAbs(FMul(acc, z0 + ZL6(a))) < FS /\ FAbs(FMul(acc, z0 + Z6(a))) < FS
=============================================================================
