------------------------------ MODULE Trace_C05 ------------------------------
(* Judge for C05.  One event = one (label, prediction, weight) sequence built *)
(* into a ConfusionMatrix by the real code, together with everything derived  *)
(* from it: equivalent input forms under a class permutation, one_vs_all,     *)
(* per-class metrics as array and as dict, accuracy, a stacked pair.          *)
(* Matrix entries are recorded multiplied by e.wscale (weights w / wscale).   *)
EXTENDS MultiCM, TLC, Json, IOUtils, TLCExt

Log == ndJsonDeserialize(IOEnv.TRACE_FILE)
VARIABLES l
vars == <<l>>
Report(e, fails) == \A c \in fails : PrintT(<<"FAILED", e.id, c>>)
Failing(S) == {p[1] : p \in {q \in S : ~q[2]}}
IsEvent(op) == l <= Len(Log) /\ Log[l].op = op /\ l' = l + 1
Init == l = 1

MetricNames == {"tpr", "tnr", "fpr", "fnr", "ppv", "npv", "fdr", "for_", "topr", "tonr",
                "class_accuracy", "class_error_rate"}
BaseName(n) == CASE n = "class_accuracy" -> "accuracy" [] n = "class_error_rate" -> "error_rate"
                 [] OTHER -> n
CountNames == {"tp", "fn", "fp", "tn", "p", "n", "top", "ton"}
CountOf(n, b) == CASE n = "tp" -> bTP(b) [] n = "fn" -> bFN(b) [] n = "fp" -> bFP(b)
                   [] n = "tn" -> bTN(b) [] n = "p" -> bP(b) [] n = "n" -> bN(b)
                   [] n = "top" -> bTOP(b) [] n = "ton" -> bTON(b)
SameMat(A, B) == /\ Len(A) = Len(B)
                 /\ \A r \in DOMAIN A : Len(A[r]) = Len(B[r])
                 /\ \A r \in DOMAIN A : \A c \in DOMAIN A[r] : A[r][c] = B[r][c]
SwapLP(s) == [k \in DOMAIN s |-> <<s[k][2], s[k][1], s[k][3]>>]

TraceCase ==
  /\ IsEvent("cmcase")
  /\ LET e   == Log[l]
         smp == e.samples
         cls == IF e.classes_arg = <<>> THEN AutoClasses(smp) ELSE e.classes_arg
         few == Len(cls) < 2
         M   == Build(smp, cls)
         nc  == Len(cls)
         ok  == e.exc = "" /\ ~few
         prm == e.forms.perm
         Mp  == Reorder(M, cls, prm)
         ova == OneVsAll(M)
         vec(x) == Len(x) = nc
     IN Report(e, Failing({
          <<"C05.too_few_classes_raises", few => e.exc = "ValueError">>,
          <<"C05.raised", few \/ e.exc = "">>,
          <<"C05.built_classes", ~ok \/ e.built.classes = cls>>,
          <<"C05.built_matrix", ~ok \/ SameMat(e.built.matrix, M)>>,
          <<"C05.forms_same_matrix", ~ok \/
               /\ SameMat(e.forms.dict, Mp) /\ SameMat(e.forms.df, Mp) /\ SameMat(e.forms.list, Mp)
               /\ e.forms.dict_classes = prm /\ e.forms.df_classes = prm
               /\ SameMat(e.forms.dict_default, M) /\ SameMat(e.forms.df_default, M)>>,
          <<"C05.one_vs_all", ~ok \/ (vec(e.ova) /\ \A j \in 1..nc :
               <<e.ova[j][1], e.ova[j][2], e.ova[j][3], e.ova[j][4]>> = ova[j])>>,
          <<"C05.one_vs_all_conserves", ~ok \/ (vec(e.ova) /\ \A j \in 1..nc :
               e.ova[j][1] + e.ova[j][2] + e.ova[j][3] + e.ova[j][4] = Total(M))>>,
          <<"C05.class_counts", ~ok \/ \A n \in CountNames :
               vec(e.counts[n]) /\ \A j \in 1..nc : e.counts[n][j] = CountOf(n, ova[j])>>,
          <<"C05.class_metrics", ~ok \/ \A n \in MetricNames :
               vec(e.metrics[n]) /\ \A j \in 1..nc :
                   SameQ(e.metrics[n][j], RateOf(BaseName(n), ova[j]))>>,
          <<"C05.as_dict_agrees", ~ok \/ \A n \in MetricNames :
               vec(e.metrics_dict[n]) /\ \A j \in 1..nc : SameQ(e.metrics_dict[n][j], e.metrics[n][j])>>,
          <<"C05.permutation_equivariant", ~ok \/ \A n \in MetricNames :
               vec(e.perm_metrics[n]) /\ \A i \in 1..nc :
                   SameQ(e.perm_metrics[n][i], e.metrics[n][IndexOf(cls, prm[i])])>>,
          <<"C05.accuracy", ~ok \/ SameQ(e.accuracy, Accuracy(M))>>,
          <<"C05.accuracy_in_narrow_integer_dtypes", ~ok \/
               (SameQ(e.acc_narrow[1], Accuracy(M)) /\ SameQ(e.acc_narrow[2], Accuracy(M)))>>,
          (* accuracy is invariant under rescaling the weights, down to populations of 1e-9 and up to 4^10 *)
          <<"C05.accuracy_scale_invariant", ~ok \/ ~("acc_scaled" \in DOMAIN e) \/
               \A i \in DOMAIN e.acc_scaled : SameQ(e.acc_scaled[i], Accuracy(M))>>,
          <<"C05.shapes", ~ok \/ e.shape_ok>>,
          (* leading shape (2,3): grid [[M, M', M], [M', M', M]], M' = labels and predictions swapped *)
          <<"C05.two_leading_dimensions", ~ok \/ \A n \in DOMAIN e.stacked2 :
               LET M2 == Build(SwapLP(smp), cls)
                   el(a, b) == IF <<a, b>> \in {<<1, 1>>, <<1, 3>>, <<2, 3>>} THEN M ELSE M2
                   z == e.stacked2[n]
               IN /\ Len(z.arr) = 2 /\ Len(z.dict) = 2
                  /\ \A a \in 1..2 : Len(z.arr[a]) = 3 /\ Len(z.dict[a]) = 3
                  /\ \A a \in 1..2 : \A b \in 1..3 :
                        /\ vec(z.arr[a][b]) /\ vec(z.dict[a][b])
                        /\ \A j \in 1..nc :
                              /\ SameQ(z.arr[a][b][j], RateOf(BaseName(n), OneVsAll(el(a, b))[j]))
                              /\ SameQ(z.dict[a][b][j], z.arr[a][b][j])>>,
          (* beyond the listed property: indexing / equality / array conversion / class count   *)
          <<"EXT.cm_container_protocol", ~ok \/ ~("ext" \in DOMAIN e) \/
               (e.ext.nb_classes = nc /\ e.ext.getitem /\ e.ext.array /\ e.ext.eq)>>,
          <<"C05.stacked", ~ok \/ \A n \in MetricNames :
               LET M2 == Build(SwapLP(smp), cls) IN
               /\ Len(e.stacked[n]) = 2 /\ vec(e.stacked[n][1]) /\ vec(e.stacked[n][2])
               /\ \A j \in 1..nc : SameQ(e.stacked[n][1][j], RateOf(BaseName(n), ova[j]))
               /\ \A j \in 1..nc : SameQ(e.stacked[n][2][j], RateOf(BaseName(n), OneVsAll(M2)[j]))>>}))

Next == TraceCase
Spec == Init /\ [][Next]_vars
AllConsumed == TLCGet("stats").diameter - 1 = Len(Log)
=============================================================================
