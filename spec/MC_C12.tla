------------------------------- MODULE MC_C12 -------------------------------
(* Bounded model for C12.  Two machines share the module:                     *)
(*  object machine  New (any argument order) / Swap / GetItem / Query - group  *)
(*                  labels stay attached, groups partition the data;           *)
(*  sampling machine  one action per RNG call, with the labels carried by      *)
(*                  index (mode "sampling").                                   *)
EXTENDS GroupScores, TLC

CONSTANTS Inputs, Cap, MaxSteps
T2 == (-1)..7

(* labelled inputs <<pos pairs, neg pairs>> in argument order                   *)
InQuick == {
  << <<<<2, 0>>, <<0, 1>>>>, <<<<1, 1>>, <<0, 0>>>> >>,
  << <<<<1, 1>>, <<1, 0>>>>, <<<<2, 0>>, <<1, 1>>, <<0, 1>>>> >>,
  << <<<<2, 0>>>>, <<<<1, 0>>, <<0, 0>>>> >> }
InThorough == InQuick \cup {
  << <<<<2, 0>>, <<0, 1>>, <<2, 1>>>>, <<<<1, 1>>, <<0, 0>>>> >>,
  << <<<<1, 1>>, <<0, 0>>, <<2, 2>>>>, <<<<2, 0>>, <<1, 2>>, <<0, 1>>>> >> }
Cfgs == {[method |-> m, strat |-> s, ratio |-> <<1, 2>>] :
            m \in {"replacement", "single_pass", "dynamic"}, s \in {"none", "by_label", "by_group"}}

VARIABLES mode, obj, hist, cfg, gdraws, sample, origin
vars == <<mode, obj, hist, cfg, gdraws, sample, origin>>
NoCfg == [method |-> "none", strat |-> "none", ratio |-> <<1, 2>>]
NoObj == GObj(<<>>, <<>>, "pos", "pos", <<>>)

Init == /\ mode = "object" /\ hist = <<>> /\ cfg = NoCfg /\ gdraws = <<>> /\ sample = NoObj
        /\ \E inp \in Inputs, sc \in Labels, ec \in Labels :
              obj = NewG(inp[1], inp[2], sc, ec) /\ origin = inp      \* the labelled arguments as given

(* ---- object machine -----------------------------------------------------------*)
Step(a) == Len(hist) < MaxSteps /\ hist' = Append(hist, a)
Swap == /\ mode = "object" /\ Step(<<"swap">>) /\ obj' = SwapG(obj) /\ origin' = <<origin[2], origin[1]>>
        /\ UNCHANGED <<mode, cfg, gdraws, sample>>
GetItemA(grp) == /\ mode = "object" /\ Step(<<"getitem", grp>>)
                 /\ UNCHANGED <<mode, obj, cfg, gdraws, sample, origin>>     \* a query: no abstract change
Query(t) == /\ mode = "object" /\ Step(<<"group_cm", t>>) /\ UNCHANGED <<mode, obj, cfg, gdraws, sample, origin>>
(* ---- sampling machine -----------------------------------------------------------*)
Begin(c) == /\ mode = "object" /\ hist = <<>> /\ mode' = "sampling" /\ cfg' = c /\ gdraws' = <<>>
            /\ (c.strat = "by_group" => \A i \in DOMAIN obj.groups :
                   LET p == GetItem(obj, obj.groups[i]) IN Len(p.pos) > 0 /\ Len(p.neg) > 0)
            /\ Len(obj.pos) > 0 /\ Len(obj.neg) > 0
            /\ UNCHANGED <<obj, hist, sample, origin>>
Draw == /\ mode = "sampling"
        /\ LET c == NextCallG(obj, cfg, gdraws) IN
             \/ (c.fn = "open" /\ gdraws' = Append(gdraws, <<>>))
             \/ (c.fn \notin {"open", "none"} /\
                 \E out \in Support(c, Cap) :
                    gdraws' = [gdraws EXCEPT ![Len(gdraws)] = Append(@, out)])
        /\ UNCHANGED <<mode, obj, hist, cfg, sample, origin>>
Build == /\ mode = "sampling" /\ NextCallG(obj, cfg, gdraws).fn = "none"
         /\ mode' = "sampled" /\ sample' = SampleFromG(obj, cfg, gdraws)
         /\ UNCHANGED <<obj, hist, cfg, gdraws, origin>>
Next == Swap \/ (\E grp \in {obj.groups[i] : i \in DOMAIN obj.groups} : GetItemA(grp))
        \/ (\E t \in {0, 3, 4} : Query(t)) \/ (\E c \in Cfgs : Begin(c)) \/ Draw \/ Build
Spec == Init /\ [][Next]_vars

(* ---- invariants --------------------------------------------------------------------*)
InvSorted == IsAsc(ScoresOf(obj.pos)) /\ IsAsc(ScoresOf(obj.neg))
(* every score keeps the label it was given, through sorting and swap()            *)
InvLabelsAttached == SameBag(obj.pos, origin[1]) /\ SameBag(obj.neg, origin[2])
(* groups partition the data: per-group matrices sum to the overall one             *)
InvPartition == \A t \in T2 : SumCells(GroupCM(obj, t)) = CountCM(AsScores(obj), t)
InvGetItem == \A i \in DOMAIN obj.groups :
   LET p == GetItem(obj, obj.groups[i]) IN
     Len(p.pos) = Len(OfGroup(obj.pos, obj.groups[i])) /\ Len(p.neg) = Len(OfGroup(obj.neg, obj.groups[i]))
(* swap keeps every label attached to its score                                     *)
SwapKeepsPairs == [][(mode = "object" /\ obj' # obj) =>
                       (SameBag(obj'.pos, obj.neg) /\ SameBag(obj'.neg, obj.pos) /\ obj'.groups = obj.groups)]_vars
Sampled == mode = "sampled"
InvSampleWellFormed == Sampled => WellFormedG(obj, cfg, sample)
InvSamplePartition == Sampled => \A t \in T2 : SumCells(GroupCM(sample, t)) = CountCM(AsScores(sample), t)
InvByGroup == (Sampled /\ cfg.strat = "by_group" /\ ResolveG(obj, cfg) = "replacement") => GroupSizesKept(obj, sample)
InvByLabel == (Sampled /\ cfg.strat = "by_label" /\ ResolveG(obj, cfg) = "replacement") => ClassSizesKept(obj, sample)
=============================================================================
