----------------------------- MODULE GroupScores -----------------------------
(* GroupScores (group_scores.py): every scored sample is a pair               *)
(* <<score, group>>.  An abstract object is                                    *)
(*   [pos, neg : sequences of pairs, ascending by score (lexicographic, so the *)
(*               representation is canonical whatever order the code leaves    *)
(*               equal scores in - NumPy's argsort is not stable),             *)
(*    sc, ec, groups : sequence of group names (integers, ascending unless     *)
(*               given explicitly)]                                            *)
EXTENDS Bootstrap

PairLess(a, b) == a[1] < b[1] \/ (a[1] = b[1] /\ a[2] < b[2])
SortPairs(s) == SortSeq(s, PairLess)
ScoresOf(s) == [i \in DOMAIN s |-> s[i][1]]
GroupsIn(s) == {s[i][2] : i \in DOMAIN s}

GObj(p, n, sc, ec, groups) == [pos |-> p, neg |-> n, sc |-> sc, ec |-> ec, groups |-> groups]
RECURSIVE AscSeqOfSet(_)
AscSeqOfSet(S) == IF S = {} THEN <<>> ELSE LET x == CHOOSE y \in S : \A z \in S : y <= z
                                           IN <<x>> \o AscSeqOfSet(S \ {x})
(* GroupScores(...) : joint sort of scores and labels; group list = sorted set   *)
NewG(p, n, sc, ec) == GObj(SortPairs(p), SortPairs(n), sc, ec, AscSeqOfSet(GroupsIn(p) \cup GroupsIn(n)))
(* the Scores view of the whole object / of one group (GroupScores.__getitem__)  *)
AsScores(g) == Obj(ScoresOf(g.pos), ScoresOf(g.neg), 0, 0, g.sc, g.ec)
OfGroup(s, grp) == SelectSeq(s, LAMBDA x : x[2] = grp)
GetItem(g, grp) == Obj(ScoresOf(OfGroup(g.pos, grp)), ScoresOf(OfGroup(g.neg, grp)), 0, 0, g.sc, g.ec)
(* as coded: swap() builds the mirrored object WITHOUT passing the group names on, so an explicitly   *)
(* given list (its order, names without any sample) is replaced by the sorted names of the samples *)
SwapG(g) == GObj(g.neg, g.pos, Flip(g.sc), Flip(g.ec), AscSeqOfSet(GroupsIn(g.pos) \cup GroupsIn(g.neg)))

GroupCM(g, t2) == [i \in DOMAIN g.groups |-> CountCM(GetItem(g, g.groups[i]), t2)]
SumCells(ms) == LET RECURSIVE S(_) S(t) == IF t = <<>> THEN <<0, 0, 0, 0>>
                      ELSE LET r == S(Tail(t)) h == Head(t) IN <<h[1] + r[1], h[2] + r[2], h[3] + r[3], h[4] + r[4]>>
                IN S(ms)

(* bag (multiset) inclusion / equality of pair sequences                         *)
CountIn(s, x) == Cardinality({i \in DOMAIN s : s[i] = x})
SameBag(a, b) == Len(a) = Len(b) /\ \A i \in DOMAIN a : CountIn(a, a[i]) = CountIn(b, a[i])
PairsFrom(a, b) == \A i \in DOMAIN a : \E j \in DOMAIN b : b[j] = a[i]
GroupSize(g, grp) == Len(OfGroup(g.pos, grp)) + Len(OfGroup(g.neg, grp))

(* ---- sampling (GroupScores.bootstrap_sample, group_scores.py:336-416) ----------*)
(* not stratified / by_label: indices drawn exactly as for Scores, labels carried  *)
(* by index.  by_group: one non-stratified draw sequence per group, in groups      *)
(* order, on that group's Scores.  gdraws = sequence of draw sequences.            *)
ResolveG(g, cfg) ==
  IF cfg.method # "dynamic" THEN cfg.method
  ELSE IF cfg.strat = "by_group" THEN "replacement"
  ELSE IF Len(g.pos) < SinglePassThreshold \/ Len(g.neg) < SinglePassThreshold
       THEN "replacement" ELSE "single_pass"
InnerCfg(g, cfg) == [method |-> ResolveG(g, cfg), strat |-> IF cfg.strat = "by_label" THEN "by_label" ELSE "none",
                     ratio |-> <<1, 2>>]
(* the Scores object the current draw sequence works on                           *)
Part(g, cfg, k) == IF cfg.strat = "by_group" THEN GetItem(g, g.groups[k]) ELSE AsScores(g)
NParts(g, cfg) == IF cfg.strat = "by_group" THEN Len(g.groups) ELSE 1
NextCallG(g, cfg, gdraws) ==
  LET k == Len(gdraws)          \* index of the part being drawn (its draw sequence is the last one)
  IN IF k = 0 THEN [fn |-> "open"]
     ELSE LET c == NextCall(Part(g, cfg, k), InnerCfg(g, cfg), gdraws[k]) IN
          IF c.fn # "none" THEN c ELSE IF k < NParts(g, cfg) THEN [fn |-> "open"] ELSE c

PickPairs(s, idx) == [i \in DOMAIN idx |-> s[idx[i] + 1]]
RECURSIVE RepeatPairs(_, _, _)
RepeatPairs(s, mult, i) == IF i > Len(s) THEN <<>> ELSE [k \in 1..mult[i] |-> s[i]] \o RepeatPairs(s, mult, i + 1)
(* indices / multiplicities a finished draw sequence selects from one part         *)
Selected(part, cfg, draws, pairsPos, pairsNeg) ==
  LET off == Off(cfg) IN
  IF cfg.method = "replacement"
  THEN <<PickPairs(pairsPos, draws[off + 1]), PickPairs(pairsNeg, draws[off + 2])>>
  ELSE LET st == Strata(part, cfg, draws)
           mp0 == draws[off + 1]  mn0 == draws[off + 2]
           needp == st[3] > 0 /\ SumOf(mp0) = 0
           needn == st[4] > 0 /\ SumOf(mn0) = 0
           mp == IF needp THEN SetAt(mp0, draws[off + 3]) ELSE mp0
           mn == IF needn THEN SetAt(mn0, draws[off + (IF needp THEN 4 ELSE 3)]) ELSE mn0
       IN <<RepeatPairs(pairsPos, mp, 1), RepeatPairs(pairsNeg, mn, 1)>>
RECURSIVE ConcatParts(_, _, _, _)
ConcatParts(g, cfg, gdraws, k) ==
  IF k > Len(gdraws) THEN <<<<>>, <<>>>>
  ELSE LET grp == g.groups[k]
           sel == Selected(GetItem(g, grp), InnerCfg(g, cfg), gdraws[k], OfGroup(g.pos, grp), OfGroup(g.neg, grp))
           rest == ConcatParts(g, cfg, gdraws, k + 1)
       IN <<sel[1] \o rest[1], sel[2] \o rest[2]>>
SampleFromG(g, cfg, gdraws) ==
  LET sel == IF cfg.strat = "by_group" THEN ConcatParts(g, cfg, gdraws, 1)
             ELSE Selected(AsScores(g), InnerCfg(g, cfg), gdraws[1], g.pos, g.neg)
  IN GObj(SortPairs(sel[1]), SortPairs(sel[2]), g.sc, g.ec, g.groups)

(* ---- what every sample must satisfy (C12) -----------------------------------------*)
WellFormedG(g, cfg, s) ==
  /\ s.sc = g.sc /\ s.ec = g.ec /\ s.groups = g.groups
  /\ PairsFrom(s.pos, g.pos) /\ PairsFrom(s.neg, g.neg)
  /\ IsAsc(ScoresOf(s.pos)) /\ IsAsc(ScoresOf(s.neg))
GroupSizesKept(g, s) == \A i \in DOMAIN g.groups : GroupSize(s, g.groups[i]) = GroupSize(g, g.groups[i])
ClassSizesKept(g, s) == Len(s.pos) = Len(g.pos) /\ Len(s.neg) = Len(g.neg)
=============================================================================
