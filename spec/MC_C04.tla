------------------------------- MODULE MC_C04 -------------------------------
(* Bounded model for C04: every 2x2 matrix over a small value set, and the   *)
(* environment action Scale (multiply every cell by 2): rates are scale      *)
(* invariant, the normal-approximation half-width shrinks by sqrt(2).        *)
EXTENDS BinaryCM, Fixed, FiniteSets, TLC, SequencesExt

CONSTANTS Vals, Alphas

ValsQuick    == {0, 1, 2, 5}
ValsThorough == 0..6
AlphasAll    == {10, 50, 100, 500}

Matrices == {<<a, b, c, d>> : a \in Vals, b \in Vals, c \in Vals, d \in Vals}

VARIABLES m, scaled
vars == <<m, scaled>>
Init == m \in Matrices /\ scaled = 0
Scale == scaled < 2 /\ m' = [i \in 1..4 |-> 2 * m[i]] /\ scaled' = scaled + 1
Next == Scale
Spec == Init /\ [][Next]_vars

(* definitions and complements                                               *)
InvTotals == bP(m) + bN(m) = bPOP(m) /\ bTOP(m) + bTON(m) = bPOP(m)
InvComplements == \A r \in RateNames : SumsToOne(RateOf(r, m), RateOf(Complement(r), m))
InvRange == \A r \in RateNames : InUnit(RateOf(r, m))
InvNaNLocus == \A r \in RateNames : IsNaN(RateOf(r, m)) <=> RateDen(r, m) = 0

(* normal-approximation interval p +- z(alpha/2) sqrt(p(1-p)/n), fixed point  *)
CIRates == {"tpr", "tnr", "fpr", "fnr"}
P6(k, n) == (k * FS) \div n
Half6(k, n, a) == FMul(Z6(a), SE6(2 * k, 2 * n))
CI6(name, mm, a) ==
  LET k == RateNum(name, mm)  n == RateDen(name, mm)
  IN IF n = 0 THEN <<"nan">> ELSE <<P6(k, n) - Half6(k, n, a), P6(k, n) + Half6(k, n, a)>>
(* nested in alpha, mirrored for the complementary rate                      *)
InvCINested == \A r \in CIRates : RateDen(r, m) # 0 /\ RateDen(r, m) <= 30 =>
   \A a \in Alphas, b \in Alphas : a < b =>
      CI6(r, m, a)[1] <= CI6(r, m, b)[1] /\ CI6(r, m, b)[2] <= CI6(r, m, a)[2]
InvCIMirror == \A r \in CIRates : RateDen(r, m) # 0 /\ RateDen(r, m) <= 30 =>
   \A a \in Alphas :
      LET x == CI6(r, m, a)  y == CI6(Complement(r), m, a)
      IN Close(x[1] + y[2], FS, 2) /\ Close(x[2] + y[1], FS, 2)
(* rates are invariant under scaling of the matrix                           *)
ScaleInvariant == [][\A r \in RateNames : SameQ(RateOf(r, m), RateOf(r, m'))]_vars

EmitCases ==
  TLCGet("stats").distinct >= 0 /\
  JsonSerialize(IOEnv.CASES_FILE, [alphas |-> SetToSeq(Alphas), cases |-> SetToSeq(Matrices)])
=============================================================================
