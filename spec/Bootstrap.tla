------------------------------ MODULE Bootstrap ------------------------------
(* Scores.bootstrap_sample (scores.py:876-1064) with ONE ACTION PER RNG CALL.  *)
(*                                                                             *)
(* The state of a sampling run is the sequence of outcomes drawn so far.  The   *)
(* operator NextCall says which call of numpy's global RNG the code makes next  *)
(* (function and parameters), Support gives every outcome that call can have,   *)
(* the action Draw appends one of them, and SampleFrom builds the sample once   *)
(* no call is left.  TLC therefore visits every RNG state of a small source,    *)
(* and a recorded run of the real RNG is accepted only if every recorded call   *)
(* is the NextCall of the current state.                                        *)
EXTENDS ScoresObj

CONSTANT SinglePassThreshold      \* SINGLE_PASS_SAMPLE_THRESHOLD (100 in the library)

(* cfg = [method, strat, ratio] ; ratio = <<n, d>> (proportion sampling)        *)
Resolve(src, cfg) ==
  IF cfg.method # "dynamic" THEN cfg.method
  ELSE IF Len(src.pos) < SinglePassThreshold \/ Len(src.neg) < SinglePassThreshold
       THEN "replacement" ELSE "single_pass"

SumOf(s) == LET RECURSIVE S(_) S(t) == IF t = <<>> THEN 0 ELSE Head(t) + S(Tail(t)) IN S(s)

(* ---- quantities derived from the outcomes drawn so far -----------------------*)
ByLabel(cfg) == cfg.strat = "by_label"
Off(cfg) == IF ByLabel(cfg) THEN 0 ELSE 3         \* draws used for the class / easy sizes
Has(draws, i) == Len(draws) >= i

(* class sizes after the "at least one positive and one negative" correction     *)
NbPos(src, draws) ==
  LET N == NAll(src)  k == draws[1]
      a == IF k = 0 /\ NPos(src) > 0 THEN 1 ELSE k
      an == IF k = 0 /\ NPos(src) > 0 THEN N - 1 ELSE N - k
  IN IF an = 0 /\ NNeg(src) > 0 THEN N - 1 ELSE a
NbNeg(src, draws) ==
  LET N == NAll(src)  k == draws[1]
      an == IF k = 0 /\ NPos(src) > 0 THEN N - 1 ELSE N - k
  IN IF an = 0 /\ NNeg(src) > 0 THEN 1 ELSE an

(* strata of the sample <<easy_pos, easy_neg, hard_pos, hard_neg>>               *)
Strata(src, cfg, draws) ==
  IF ByLabel(cfg) THEN <<src.ep, src.en, Len(src.pos), Len(src.neg)>>
  ELSE LET np == NbPos(src, draws)  nn == NbNeg(src, draws)
           e1 == draws[2]  e2 == draws[3]
           hp0 == np - e1  hn0 == nn - e2
           fixp == hp0 = 0 /\ Len(src.pos) > 0
           fixn == hn0 = 0 /\ Len(src.neg) > 0
       IN <<IF fixp THEN np - 1 ELSE e1, IF fixn THEN nn - 1 ELSE e2,
            IF fixp THEN 1 ELSE hp0, IF fixn THEN 1 ELSE hn0>>

(* ---- the next RNG call ---------------------------------------------------------*)
NoCall == [fn |-> "none"]
Ratio(a, b) == IF b = 0 THEN <<0, 1>> ELSE R(a, b)
EasyPosRatio(src) == IF src.ep > 0 THEN Ratio(src.ep, NPos(src)) ELSE <<0, 1>>
EasyNegRatio(src) == IF src.en > 0 THEN Ratio(src.en, NNeg(src)) ELSE <<0, 1>>

SizeCalls(src, draws) ==          \* the three binomial draws of the non-stratified path
  CASE Len(draws) = 0 -> [fn |-> "binomial", n |-> NAll(src), p |-> Ratio(NPos(src), NAll(src)), size |-> 0]
    [] Len(draws) = 1 -> [fn |-> "binomial", n |-> NbPos(src, draws), p |-> EasyPosRatio(src), size |-> 0]
    [] Len(draws) = 2 -> [fn |-> "binomial", n |-> NbNeg(src, draws), p |-> EasyNegRatio(src), size |-> 0]

PropCount(ratio, size) == LET k == (ratio[1] * size) \div ratio[2] IN IF k > 1 THEN k ELSE 1

NextCall(src, cfg, draws) ==
  LET method == Resolve(src, cfg)
      off == Off(cfg)
      k == Len(draws) - off
  IN IF method = "proportion"
     THEN (CASE Len(draws) = 0 -> [fn |-> "choice_norepl", a |-> Len(src.pos), size |-> PropCount(cfg.ratio, Len(src.pos))]
             [] Len(draws) = 1 -> [fn |-> "choice_norepl", a |-> Len(src.neg), size |-> PropCount(cfg.ratio, Len(src.neg))]
             [] OTHER -> NoCall)
     ELSE IF ~ByLabel(cfg) /\ Len(draws) < 3 THEN SizeCalls(src, draws)
     ELSE LET st == Strata(src, cfg, draws)  hp == st[3]  hn == st[4] IN
          IF method = "replacement"
          THEN (CASE k = 0 -> [fn |-> "choice", a |-> Len(src.pos), size |-> hp]
                  [] k = 1 -> [fn |-> "choice", a |-> Len(src.neg), size |-> hn]
                  [] OTHER -> NoCall)
          ELSE (* single pass: multiplicities, then the at-least-one corrections *)
               LET mult(n, a) == IF n < 100
                                 THEN [fn |-> "binomial", n |-> n, p |-> Ratio(1, a), size |-> a]
                                 ELSE [fn |-> "poisson", n |-> n, p |-> Ratio(1, a), size |-> a]
                   needp == k >= 2 /\ hp > 0 /\ SumOf(draws[off + 1]) = 0
                   needn == k >= 2 /\ hn > 0 /\ SumOf(draws[off + 2]) = 0
               IN CASE k = 0 -> mult(hp, Len(src.pos))
                    [] k = 1 -> mult(hn, Len(src.neg))
                    [] k = 2 /\ needp -> [fn |-> "randint", a |-> Len(src.pos), size |-> 0]
                    [] k = 2 /\ ~needp /\ needn -> [fn |-> "randint", a |-> Len(src.neg), size |-> 0]
                    [] k = 3 /\ needp /\ needn -> [fn |-> "randint", a |-> Len(src.neg), size |-> 0]
                    [] OTHER -> NoCall

(* every outcome a call can have (Cap bounds multiplicities in exhaustive runs)  *)
BinSupport(n, p) == IF p[1] = 0 THEN {0} ELSE IF p[1] = p[2] THEN {n} ELSE 0..n
Support(c, Cap) ==
  CASE c.fn = "binomial" /\ c.size = 0 -> BinSupport(c.n, c.p)
    [] c.fn \in {"binomial", "poisson"} ->
         {s \in [1..c.size -> 0..(IF c.n < Cap THEN c.n ELSE Cap)] :
             c.fn = "poisson" \/ \A i \in 1..c.size : s[i] \in BinSupport(c.n, c.p)}
    [] c.fn = "choice" -> [1..c.size -> 0..(c.a - 1)]
    [] c.fn = "choice_norepl" -> {s \in [1..c.size -> 0..(c.a - 1)] :
                                     \A i, j \in 1..c.size : i # j => s[i] # s[j]}
    [] c.fn = "randint" -> 0..(c.a - 1)

(* is a RECORDED outcome possible for the call?  (no Cap: used by the judge)     *)
Possible(c, out) ==
  CASE c.fn = "binomial" /\ c.size = 0 -> out \in BinSupport(c.n, c.p)
    [] c.fn = "binomial" -> Len(out) = c.size /\ \A i \in 1..c.size : out[i] \in BinSupport(c.n, c.p)
    [] c.fn = "poisson" -> Len(out) = c.size /\ \A i \in 1..c.size : out[i] >= 0
    [] c.fn = "choice" -> Len(out) = c.size /\ \A i \in 1..c.size : out[i] \in 0..(c.a - 1)
    [] c.fn = "choice_norepl" -> /\ Len(out) = c.size /\ \A i \in 1..c.size : out[i] \in 0..(c.a - 1)
                                 /\ \A i, j \in 1..c.size : i # j => out[i] # out[j]
    [] c.fn = "randint" -> out \in 0..(c.a - 1)

(* ---- building the sample ---------------------------------------------------------*)
Pick(s, idx) == SortAsc([i \in DOMAIN idx |-> s[idx[i] + 1]])
RECURSIVE RepeatBy(_, _, _)
RepeatBy(s, mult, i) ==        \* s[i] repeated mult[i] times, ... (already ascending)
  IF i > Len(s) THEN <<>> ELSE [k \in 1..mult[i] |-> s[i]] \o RepeatBy(s, mult, i + 1)
SetAt(mult, i) == [mult EXCEPT ![i + 1] = 1]

SampleFrom(src, cfg, draws) ==
  LET method == Resolve(src, cfg)
      off == Off(cfg)
  IN IF method = "proportion"
     THEN Obj(Pick(src.pos, draws[1]), Pick(src.neg, draws[2]),
              (cfg.ratio[1] * src.ep) \div cfg.ratio[2], (cfg.ratio[1] * src.en) \div cfg.ratio[2],
              src.sc, src.ec)
     ELSE LET st == Strata(src, cfg, draws) IN
          IF method = "replacement"
          THEN Obj(Pick(src.pos, draws[off + 1]), Pick(src.neg, draws[off + 2]), st[1], st[2], src.sc, src.ec)
          ELSE LET mp0 == draws[off + 1]  mn0 == draws[off + 2]
                   needp == st[3] > 0 /\ SumOf(mp0) = 0
                   needn == st[4] > 0 /\ SumOf(mn0) = 0
                   mp == IF needp THEN SetAt(mp0, draws[off + 3]) ELSE mp0
                   mn == IF needn THEN SetAt(mn0, draws[off + (IF needp THEN 4 ELSE 3)]) ELSE mn0
               IN Obj(RepeatBy(src.pos, mp, 1), RepeatBy(src.neg, mn, 1), st[1], st[2], src.sc, src.ec)

(* ---- what every sample must satisfy (procedure-agnostic, C11) ---------------------*)
SubBag(a, b) == \A v \in {a[i] : i \in DOMAIN a} : v \in {b[i] : i \in DOMAIN b}
WellFormed(src, cfg, smp) ==
  /\ smp.sc = src.sc /\ smp.ec = src.ec
  /\ SubBag(smp.pos, src.pos) /\ SubBag(smp.neg, src.neg)
  /\ IsAsc(smp.pos) /\ IsAsc(smp.neg)
  /\ (Len(src.pos) > 0 => Len(smp.pos) > 0) /\ (Len(src.neg) > 0 => Len(smp.neg) > 0)
TotalPreserved(src, smp) == NAll(smp) = NAll(src)
StrataPreserved(src, smp) ==
  /\ smp.ep = src.ep /\ smp.en = src.en /\ Len(smp.pos) = Len(src.pos) /\ Len(smp.neg) = Len(src.neg)
ProportionOK(src, cfg, smp) ==
  /\ Len(smp.pos) = PropCount(cfg.ratio, Len(src.pos)) /\ Len(smp.neg) = PropCount(cfg.ratio, Len(src.neg))
  /\ \A v \in {smp.pos[i] : i \in DOMAIN smp.pos} :
        Cardinality({i \in DOMAIN smp.pos : smp.pos[i] = v}) <= Cardinality({i \in DOMAIN src.pos : src.pos[i] = v})
  /\ \A v \in {smp.neg[i] : i \in DOMAIN smp.neg} :
        Cardinality({i \in DOMAIN smp.neg : smp.neg[i] = v}) <= Cardinality({i \in DOMAIN src.neg : src.neg[i] = v})
=============================================================================
