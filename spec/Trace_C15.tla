------------------------------ MODULE Trace_C15 ------------------------------
(* Judge for C15: recorded roc() curves.  Thresholds are <<n, d, k>> (ROC.tla); *)
(* cm[i] is the matrix the same Scores object reports at thresholds[i].         *)
EXTENDS ROC, TLC, Json, IOUtils, TLCExt

Log == ndJsonDeserialize(IOEnv.TRACE_FILE)
VARIABLES l, store, last      \* last = what the most recent roc() call returned (as recorded)
vars == <<l, store, last>>
Report(e, fails) == \A c \in fails : PrintT(<<"FAILED", e.id, c>>)
Failing(S) == {p[1] : p \in {q \in S : ~q[2]}}
IsEvent(op) == l <= Len(Log) /\ Log[l].op = op /\ l' = l + 1
ObjOfRec(r) == Obj(r.pos, r.neg, r.ep, r.en, r.sc, r.ec)
Init == l = 1 /\ store = <<>> /\ last = <<>>

TraceNew ==
  /\ IsEvent("New")
  /\ LET e == Log[l]
         a == e.args
         o == NewObj(a.p, a.n, a.ep, a.en, a.sc, a.ec, a.sorted)
     IN /\ store' = (e.h :> o) @@ store /\ UNCHANGED last
        /\ Report(e, Failing({<<"C15.raised", e.exc = "">>,
                              <<"C15.new_state", e.exc # "" \/ ObjOfRec(e.post) = o>>}))

T(x) == <<x[1], x[2], x[3]>>
Q(x) == <<x[1], x[2]>>
In(t, seq) == \E j \in DOMAIN seq : T3Eq(T(seq[j]), T(t))
Views == {"tpr", "tnr", "far", "frr", "tar", "trr"}
TraceRoc ==
  /\ IsEvent("roc")
  /\ LET e == Log[l]
         o == store[e.h]
         a == e.args
         r == e.out
         n == Len(r.thr)
         ok == e.exc = "" /\ \A i \in 1..n : r.thr[i][2] > 0
         lens == Len(r.fnr) = n /\ Len(r.fpr) = n /\ Len(r.cm) = n /\ \A v \in Views : Len(r[v]) = n
         x == CanonAxis(e.x)
         xs == IF x = "fnr" THEN r.fnr ELSE IF x = "fpr" THEN r.fpr ELSE r[x]
         nothing == Len(a.fnr) = 0 /\ Len(a.fpr) = 0 /\ Len(a.thr) = 0
         fnrs == [i \in DOMAIN a.fnr |-> Q(a.fnr[i])]
         fprs == [i \in DOMAIN a.fpr |-> Q(a.fpr[i])]
         thrs == [i \in DOMAIN a.thr |-> T(a.thr[i])]
         model == Support(o, fnrs, fprs, thrs, a.nb, e.x)
     IN /\ UNCHANGED store /\ last' = e
        /\ Report(e, Failing({
             <<"C15.raised", e.exc = "">>,
             <<"C15.thresholds_finite", e.exc # "" \/ ok>>,
             <<"C15.equal_lengths", ~ok \/ lens>>,
             (* a query: neither the object nor the arrays the caller passed in are modified     *)
             <<"C15.inputs_untouched", ~ok \/ r.inputs_untouched>>,
             <<"C15.rates_are_rates_at_thresholds", ~ok \/ ~lens \/ \A i \in 1..n :
                  /\ REq(r.fnr[i], R(r.cm[i][2], NPos(o))) /\ REq(r.fpr[i], R(r.cm[i][3], NNeg(o)))
                  /\ r.cm[i][1] + r.cm[i][2] = NPos(o) /\ r.cm[i][3] + r.cm[i][4] = NNeg(o)>>,
             <<"C15.x_axis_non_decreasing", ~ok \/ ~lens \/ \A i \in 1..(n - 1) : RLe(xs[i], xs[i + 1])>>,
             <<"C15.contains_supplied_thresholds", ~ok \/ \A i \in DOMAIN a.thr : In(a.thr[i], r.thr)>>,
             <<"C15.contains_thresholds_of_supplied_rates", ~ok \/
                  ((\A i \in DOMAIN e.t_fnr : In(e.t_fnr[i], r.thr)) /\ (\A i \in DOMAIN e.t_fpr : In(e.t_fpr[i], r.thr))
                   /\ Len(e.t_fnr) = Len(a.fnr) /\ Len(e.t_fpr) = Len(a.fpr))>>,
             <<"C15.point_count", ~ok \/ ~nothing \/
                  n = (IF a.nb = -1 THEN Len(o.pos) + Len(o.neg) ELSE a.nb)>>,
             <<"C15.derived_views", ~ok \/ ~lens \/ \A i \in 1..n :
                  /\ REq(r.tpr[i], RSub(ROne, r.fnr[i])) /\ REq(r.tnr[i], RSub(ROne, r.fpr[i]))
                  /\ REq(r.far[i], r.fpr[i]) /\ REq(r.frr[i], r.fnr[i])
                  /\ REq(r.tar[i], r.tpr[i]) /\ REq(r.trr[i], r.tnr[i])>>,
             <<"DRIFT.cm_model", ~ok \/ ~lens \/ \A i \in 1..n :
                  <<r.cm[i][1], r.cm[i][2], r.cm[i][3], r.cm[i][4]>> = CountCM(o, T3Pos2(T(r.thr[i])))>>,
             <<"DRIFT.support_model", ~ok \/
                  (Len(model) = n /\ \A i \in 1..n : REq(Q(r.thr[i]), Q(model[i])))>>}))

(* an unknown x_axis must be rejected                                            *)
TraceRocBadAxis ==
  /\ IsEvent("roc_bad_axis") /\ UNCHANGED <<store, last>>
  /\ Report(Log[l], Failing({<<"C15.unknown_axis_rejected", Log[l].exc = "ValueError">>}))

(* history: after roc() returned, the caller writes into ITS OWN arrays - the thresholds / rates it    *)
(* passed in and the arrays it read from the derived views - and reads the curve again: the curve    *)
(* is the same curve                                                                                  *)
TraceReread ==
  /\ IsEvent("roc_reread") /\ UNCHANGED <<store, last>>
  /\ LET e == Log[l]
         r == e.out
         p == last.out
         sameQ(a, b) == Len(a) = Len(b) /\ \A i \in DOMAIN a : a[i] = b[i]
     IN Report(e, Failing({
          <<"C15.raised", e.exc = "">>,
          <<"C15.curve_unchanged_by_callers_later_writes", e.exc # "" \/ last = <<>> \/ last.exc # "" \/
               (/\ sameQ(r.thr, p.thr) /\ sameQ(r.fnr, p.fnr) /\ sameQ(r.fpr, p.fpr)
                /\ \A v \in Views : sameQ(r[v], p[v]))>>}))

(* history: the caller re-assigns the configuration attributes of a live object (as enum members  *)
(* or as the plain strings the label type compares equal to)                                      *)
TraceSetConfig ==
  /\ IsEvent("SetConfig")
  /\ LET e == Log[l]
         o == [store[e.h] EXCEPT !.sc = e.sc, !.ec = e.ec]
     IN /\ store' = (e.h :> o) @@ store /\ UNCHANGED last
        /\ Report(e, Failing({<<"C15.raised", e.exc = "">>,
                              <<"C15.state_after_assigning_configuration", e.exc # "" \/ ObjOfRec(e.post) = o>>}))

Next == TraceNew \/ TraceRoc \/ TraceRocBadAxis \/ TraceReread \/ TraceSetConfig
Spec == Init /\ [][Next]_vars
AllConsumed == TLCGet("stats").diameter - 1 = Len(Log)
=============================================================================
