------------------------------ MODULE Trace_C02 ------------------------------
(* Judge for threshold setting: C02 (round trip, coherence of the methods,   *)
(* monotonicity, aliases) and C03 (extreme operating points).  Every clause  *)
(* is evaluated on values RECORDED from the implementation: the projected    *)
(* thresholds and the counts that the same object reports at the returned    *)
(* threshold and one ulp either side of it.  Agreement with the as-coded     *)
(* model (ThresholdCoded) is reported as DRIFT only: an implementation may   *)
(* change its interpolation and still satisfy the property.                  *)
EXTENDS Threshold, Json, IOUtils, TLCExt

Log == ndJsonDeserialize(IOEnv.TRACE_FILE)

VARIABLES l, store
vars == <<l, store>>

Report(e, fails) == \A c \in fails : PrintT(<<"FAILED", e.id, c>>)
Failing(S) == {p[1] : p \in {q \in S : ~q[2]}}
IsEvent(op) == l <= Len(Log) /\ Log[l].op = op /\ l' = l + 1
ObjOfRec(r) == Obj(r.pos, r.neg, r.ep, r.en, r.sc, r.ec)

Init == l = 1 /\ store = <<>>

TraceNew ==
  /\ IsEvent("New")
  /\ LET e == Log[l]
         a == e.args
         o == NewObj(a.p, a.n, a.ep, a.en, a.sc, a.ec, a.sorted)
     IN /\ store' = (e.h :> o) @@ store
        /\ Report(e, Failing({<<"C02.raised", e.exc = "">>,
                              <<"C02.new_state", e.exc # "" \/ ObjOfRec(e.post) = o>>}))

(* recorded threshold [n, d] in abstract score coordinates (d = 0: NaN, inf   *)
(* or not on a small-rational lattice).  The two sentinels one ulp outside   *)
(* the scores project to the extreme score itself.                           *)
Good(x) == x[2] > 0

Frac(x) == RSub(x, RInt(RFloor(x)))
Convex(a, b, w) == RAdd(RMul(w, a), RMul(RSub(ROne, w), b))

TraceThreshold ==
  /\ IsEvent("threshold")
  /\ LET e  == Log[l]
         o  == store[e.h]
         m  == e.m
         n  == Len(e.r)
         ok == /\ e.exc = ""
               /\ \A f \in {"lin", "lo", "hi"} : Len(e[f]) = n /\ Len(e.c[f]) = n
               /\ \A i \in 1..n : Good(e.lin[i]) /\ Good(e.lo[i]) /\ Good(e.hi[i])
         S  == RelScores(o, m)
         N  == MetricPop(o, m)
         lin(i) == e.lin[i]
         lo(i)  == e.lo[i]
         hi(i)  == e.hi[i]
         up == MetricUp(o, m)
         mono(f) == \A i \in 1..(n - 1) :
                       IF up THEN RLe(e[f][i], e[f][i + 1]) ELSE RLe(e[f][i + 1], e[f][i])
     IN /\ UNCHANGED store
        /\ Report(e, Failing({
             <<"C02.raised", e.exc = "">>,
             <<"C02.shape_or_value", e.exc # "" \/ ok>>,
             (* round trip, default method, as computed by the same object    *)
             <<"C02.round_trip", ~ok \/ \A i \in 1..n :
                  RoundTripOK(e.c.lin[i][1], e.c.lin[i][2], e.c.lin[i][3],
                              ClippedTarget(o, m, e.r[i]))>>,
             (* C03, all three methods                                          *)
             <<"C03.extreme", ~ok \/ \A i \in 1..n : \A f \in {"lin", "lo", "hi"} :
                  ExtremeOK(o, m, e.r[i], e.c[f][i][1])>>,
             <<"C02.lower_higher_are_scores", ~ok \/ \A i \in 1..n :
                  e.lo_is_score[i] /\ e.hi_is_score[i]>>,
             <<"C02.metric_lower_le_higher", ~ok \/ \A i \in 1..n :
                  e.c.lo[i][1] <= e.c.hi[i][1]>>,
             <<"C02.linear_between", ~ok \/ \A i \in 1..n :
                  \/ (RLe(lo(i), lin(i)) /\ RLe(lin(i), hi(i)))
                  \/ (RLe(hi(i), lin(i)) /\ RLe(lin(i), lo(i)))>>,
             <<"C02.linear_convex", ~ok \/ \A i \in 1..n :
                  LET f == Frac(RMul(e.r[i], RInt(N))) IN
                    IF f = RZero
                    THEN REq(lin(i), lo(i)) \/ REq(lin(i), hi(i))
                    ELSE \/ REq(lin(i), Convex(lo(i), hi(i), f))
                         \/ REq(lin(i), Convex(hi(i), lo(i), f))>>,
             <<"C02.monotone", ~ok \/ (mono("lin") /\ mono("lo") /\ mono("hi"))>>,
             <<"C02.alias_identical", e.exc # "" \/ e.alias_same>>,
             <<"C02.scalar_matches_vector", e.exc # "" \/ e.scalar_same>>,
             (* a query does not write into the caller's target array                          *)
             <<"C02.targets_untouched", e.exc # "" \/ ~("targets_untouched" \in DOMAIN e) \/ e.targets_untouched>>,
             (* conformance with the as-coded model: drift, not a verdict       *)
             <<"DRIFT.threshold_model", ~ok \/ \A i \in 1..n :
                  /\ \E w \in CodedSet(o, m, e.r[i], "linear") : REq(lin(i), w)
                  /\ \E w \in CodedSet(o, m, e.r[i], "lower")  : REq(lo(i), w)
                  /\ \E w \in CodedSet(o, m, e.r[i], "higher") : REq(hi(i), w)>>}))

(* threshold setting on an empty relevant class must raise ValueError        *)
TraceThresholdEmpty ==
  /\ IsEvent("threshold_empty")
  /\ LET e == Log[l]
         o == store[e.h]
     IN /\ UNCHANGED store
        /\ Report(e, Failing({
             <<"C02.empty_class_raises", Len(RelScores(o, e.m)) = 0 /\ e.exc = "ValueError">>}))

(* threshold setting on an object too large to mirror (1e5 .. 1e6 scores):    *)
(* the clauses that only need counts.  goal2 = twice the target count        *)
(* (target r = goal2 / (2 * pop)); low / high = counts beyond both ends.     *)
Clamp2(g, lo, hi) == IF g < 2 * lo THEN 2 * lo ELSE IF g > 2 * hi THEN 2 * hi ELSE g
RoundTrip2(c, cb, ca, g) ==
  LET lo == IF cb < ca THEN cb ELSE ca
      hi == IF cb < ca THEN ca ELSE cb
  IN \/ (2 * (c - 1) <= g /\ g <= 2 * (c + 1))
     \/ (2 * (lo - 1) <= g /\ g <= 2 * (hi + 1))
TraceThresholdBig ==
  /\ IsEvent("threshold_big")
  /\ LET e  == Log[l]
         n  == Len(e.goal2)
         ok == e.exc = "" /\ \A f \in {"lin", "lo", "hi"} : Len(e.c[f]) = n
     IN /\ UNCHANGED store
        /\ Report(e, Failing({
             <<"C02.raised", e.exc = "">>,
             <<"C02.shape_or_value", e.exc # "" \/ ok>>,
             <<"C02.round_trip", ~ok \/ \A i \in 1..n :
                  RoundTrip2(e.c.lin[i][1], e.c.lin[i][2], e.c.lin[i][3], Clamp2(e.goal2[i], e.low, e.high))>>,
             <<"C03.extreme", ~ok \/ \A i \in 1..n : \A f \in {"lin", "lo", "hi"} :
                  /\ e.goal2[i] <= 0 => e.c[f][i][1] = e.low
                  /\ e.goal2[i] >= 2 * e.pop => e.c[f][i][1] = e.high>>,
             <<"C02.metric_lower_le_higher", ~ok \/ \A i \in 1..n : e.c.lo[i][1] <= e.c.hi[i][1]>>,
             <<"C02.monotone", ~ok \/ \A f \in {"lin", "lo", "hi"} : \A i \in 1..(n - 1) :
                  e.c[f][i][1] <= e.c[f][i + 1][1]>>,
             <<"C02.scalar_matches_vector", e.exc # "" \/ e.scalar_same>>}))

(* history: the caller re-assigns the configuration attributes of a live object (as enum members  *)
(* or as the plain strings the label type compares equal to)                                      *)
(* history: a constant is added to every score in place                                       *)
TraceShiftScores ==
  /\ IsEvent("ShiftScores")
  /\ LET e == Log[l]
         o == [store[e.h] EXCEPT !.pos = [i \in DOMAIN @ |-> @[i] + e.d], !.neg = [i \in DOMAIN @ |-> @[i] + e.d]]
     IN /\ store' = (e.h :> o) @@ store
        /\ Report(e, Failing({<<"C02.raised", e.exc = "">>,
                              <<"C02.state_after_in_place_shift", e.exc # "" \/ ObjOfRec(e.post) = o>>}))

TraceSetConfig ==
  /\ IsEvent("SetConfig")
  /\ LET e == Log[l]
         o == [store[e.h] EXCEPT !.sc = e.sc, !.ec = e.ec]
     IN /\ store' = (e.h :> o) @@ store
        /\ Report(e, Failing({<<"C02.raised", e.exc = "">>,
                              <<"C02.state_after_assigning_configuration", e.exc # "" \/ ObjOfRec(e.post) = o>>}))

(* history: the caller re-binds one of the (sorted) score arrays of a live object               *)
TraceSetScores ==
  /\ IsEvent("SetScores")
  /\ LET e == Log[l]
         o == IF e.cls = "pos" THEN [store[e.h] EXCEPT !.pos = e.seq] ELSE [store[e.h] EXCEPT !.neg = e.seq]
     IN /\ store' = (e.h :> o) @@ store
        /\ Report(e, Failing({<<"C02.raised", e.exc = "">>,
                              <<"C02.state_after_rebinding_scores", e.exc # "" \/ ObjOfRec(e.post) = o>>}))

(* history: copy.copy / copy.deepcopy / a pickle round trip of a live object gives an equal object *)
TraceCopy ==
  /\ IsEvent("Copy")
  /\ LET e == Log[l]
         o == store[e.h]
     IN /\ store' = (e.h2 :> o) @@ store
        /\ Report(e, Failing({<<"C02.raised", e.exc = "">>,
                              <<"C02.copy_equals_source", e.exc # "" \/ ObjOfRec(e.post) = o>>}))

Next == TraceNew \/ TraceThreshold \/ TraceThresholdEmpty \/ TraceThresholdBig \/ TraceSetConfig \/ TraceShiftScores \/ TraceSetScores \/ TraceCopy
Spec == Init /\ [][Next]_vars
AllConsumed == TLCGet("stats").diameter - 1 = Len(Log)
=============================================================================
