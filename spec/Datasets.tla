------------------------------ MODULE Datasets ------------------------------
(* experimental/datasets.py, the discrete parts exactly.                        *)
(* Probabilities are p = a/PD, correlations rho = r/RD (twentieths).             *)
EXTENDS Integers, Rat, Sequences

PD == 20
RD == 20

Floor(q) == RFloor(q)
(* BernoulliDataset.sample(random=False): floor(n p) successes                   *)
BernoulliCount(n, a) == Floor(R(n * a, PD))
(* is n*p an integer?  then float arithmetic may legitimately land one below     *)
OnGrid(n, a) == (n * a) % PD = 0

(* CorrelatedBernoullilDataset: joint probabilities                              *)
(*   c = (1-p1)(1-p2),  s = rho sqrt(p1 p2 c),  a = c + s                         *)
(*   P = <<a, 1-p2-a, 1-p1-a, p1+p2+a-1>>  -  all of the form  K_i +- s          *)
(* sign of  s - K  for rational K, decided exactly by squaring                   *)
X(a1, a2) == R(a1 * a2 * (PD - a1) * (PD - a2), PD * PD * PD * PD)        \* p1 p2 c
SgnQ(q) == IF q[1] > 0 THEN 1 ELSE IF q[1] < 0 THEN -1 ELSE 0
SignSMinus(a1, a2, r, K) ==
  LET s2 == RMul(R(r * r, RD * RD), X(a1, a2))          \* s^2
      ss == IF r > 0 /\ s2[1] > 0 THEN 1 ELSE IF r < 0 /\ s2[1] > 0 THEN -1 ELSE 0   \* sign of s
      ks == SgnQ(K)
  IN IF ss > ks THEN 1 ELSE IF ss < ks THEN -1
     ELSE IF ss = 0 THEN 0
     ELSE ss * SgnQ(RSub(s2, RMul(K, K)))           \* same sign: compare squares
(* signs of the four joint probabilities: P1 = c + s, P2 = (1-p2-c) - s,          *)
(* P3 = (1-p1-c) - s, P4 = (p1+p2+c-1) + s                                        *)
C(a1, a2) == R((PD - a1) * (PD - a2), PD * PD)
JointSigns(a1, a2, r) ==
  LET c == C(a1, a2)
      k2 == RSub(RSub(ROne, R(a2, PD)), c)
      k3 == RSub(RSub(ROne, R(a1, PD)), c)
      k4 == RSub(RAdd(RAdd(R(a1, PD), R(a2, PD)), c), ROne)
  IN << SignSMinus(a1, a2, r, RNeg(c)),           \* c + s >= 0  <=>  s >= -c
        -SignSMinus(a1, a2, r, k2),               \* k2 - s
        -SignSMinus(a1, a2, r, k3),
        SignSMinus(a1, a2, r, RNeg(k4)) >>
Valid(a1, a2, r) == \A i \in 1..4 : JointSigns(a1, a2, r)[i] >= 0
StrictlyValid(a1, a2, r) == \A i \in 1..4 : JointSigns(a1, a2, r)[i] > 0
ClearlyInvalid(a1, a2, r) == \E i \in 1..4 : JointSigns(a1, a2, r)[i] < 0
=============================================================================
