#!/bin/sh
# Offline setup: parse every specification module with SANY and generate the
# numeric tables the specifications load (standard library only).
set -e
cd "$(dirname "$0")"
mkdir -p gen work evidence replays
/venv/bin/python -B -m harness.tables gen/tables.json
cd spec
fail=0
for f in *.tla; do
  if ! java -cp /opt/veriftools/tla/tla2tools.jar:/opt/veriftools/tla/CommunityModules-deps.jar tla2sany.SANY "$f" > ../work/sany.out 2>&1; then
    echo "SANY failed on $f"; cat ../work/sany.out; fail=1
  elif grep -q "error" ../work/sany.out && ! grep -q "Semantic processing" ../work/sany.out; then
    echo "SANY reported errors on $f"; cat ../work/sany.out; fail=1
  fi
done
rm -f ../work/sany.out
[ $fail = 0 ] && echo "setup ok"
exit $fail
