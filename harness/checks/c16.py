"""C16 - ROC confidence bands are well-formed envelopes of pointwise rectangles.

Leg A: TLC on MC_C16 (closed form of roc_with_ci under an identity sampler: rule
of three exactly at rates 0/1, envelope of the covering rectangles; ordered,
inside [0,1], containing each point's own interval).
Leg B: roc_with_ci and the three experimental band functions are called on every
small object for the argument combinations the property scopes, with an identity
sampler (all three bootstrap methods) and seeded built-in samplers.
Leg C: TLC validates: well-formedness for all four functions, the closed form for
roc_with_ci under the identity sampler (Trace_C16).
"""
from __future__ import annotations

import json

import numpy as np

from .. import core, gamma
from .. import scoresdrv as sd
from .c15 import T3Projector, rats

PROP = "C16"
MC_CFG = """SPECIFICATION Spec
CONSTANTS
  K = {K}
  MaxP = {MaxP}
  MaxN = {MaxN}
  EasyPairs <- EasyQuick
  Alphas <- AlphasAll
INVARIANT InvWellFormed
INVARIANT InvContainsOwn
CHECK_DEADLOCK FALSE
"""
TIERS = {"quick": dict(K=3, MaxP=2, MaxN=2), "thorough": dict(K=4, MaxP=3, MaxN=2)}
LIM = 1_500_000_000
ARGS = [
    {"fnr": [], "fpr": [], "thr": [], "nb": -1},
    {"fnr": [], "fpr": [], "thr": [], "nb": 7},
    {"fnr": [], "fpr": [], "thr": [], "nb": 2},
    {"fnr": [[0, 1], [1, 2]], "fpr": [], "thr": [], "nb": -1},
    {"fnr": [], "fpr": [[1, 4], [1, 1]], "thr": [], "nb": 4},
    {"fnr": [], "fpr": [], "thr": [[1, 2, 0], [1, 1, 0]], "nb": -1},
    {"fnr": [[1, 3]], "fpr": [[2, 3]], "thr": [[0, 1, 0]], "nb": -1},
    {"fnr": [[1, 3], [1, 2]], "fpr": [], "thr": [], "nb": 2},          # explicit points AND a small nb_points
    {"fnr": [], "fpr": [], "thr": [[1, 2, 0]], "nb": 1},
    {"fnr": [], "fpr": [[1, 4]], "thr": [], "nb": 3},
]


def fx6(x):
    x = float(x)
    return LIM if x != x else int(round(max(-LIM, min(LIM, x * 1e6))))


def objects(par, easy=((0, 0), (2, 3))):
    K, MP, MN = par["K"], par["MaxP"], par["MaxN"]
    import itertools
    out = []
    for npos in range(1, MP + 1):
        for nneg in range(1, MN + 1):
            for pos in itertools.combinations_with_replacement(range(K), npos):
                for neg in itertools.combinations_with_replacement(range(K), nneg):
                    for ep, en in easy:
                        for sc in ("pos", "neg"):
                            for ec in ("pos", "neg"):
                                out.append({"pos": list(pos), "neg": list(neg), "ep": ep, "en": en,
                                            "sc": sc, "ec": ec})
    # class sizes at which (1/n)*n is not exactly 1 in floating point (n = 49, 98, 103, 107):
    # the rule of three must still fire at rate 0 only, not at rate 1/n
    for (pos, neg) in (((0, 2), (1, 1)), ((1, 2), (0, 2)), ((0, 1), (1, 2))):
        for ep, en in ((47, 96), (101, 105)):
            for sc in ("pos", "neg"):
                out.append({"pos": list(pos), "neg": list(neg), "ep": ep, "en": en, "sc": sc, "ec": "pos"})
    return out


def band_event(ev, s, o, g, fn_name, a, alpha, sampler, method, np_seed):
    from score_analysis import BootstrapConfig, roc_with_ci
    from score_analysis.experimental import (fixed_width_band_ci, pointwise_band_ci,
                                             simultaneous_joint_region_ci)
    fns = {"roc_with_ci": roc_with_ci, "pointwise_band_ci": pointwise_band_ci,
           "simultaneous_joint_region_ci": simultaneous_joint_region_ci,
           "fixed_width_band_ci": fixed_width_band_ci}
    identity = sampler == "identity"
    stored = []

    def scripted_sampler(src_):
        """five samples drawn once (seeded), handed out in turn"""
        if not stored:
            st_ = np.random.get_state()
            np.random.seed(4000 + np_seed)
            stored.extend(src_.bootstrap_sample(BootstrapConfig(sampling_method="replacement")) for _ in range(5))
            np.random.set_state(st_)
            stored.append(0)
        i = stored[-1]
        stored[-1] = i + 1
        return stored[i % 5]
    e = ev("band", h=1, fn=fn_name, args=a, alpha=alpha, identity=identity, sampler=sampler, method=method,
           out={"cm": [], "fnr": [], "fpr": [], "fnr_ci": [], "fpr_ci": [], "u": [], "w": [],
                "shape_ok": True, "nan_free": True, "views_ci": {}, "inputs_untouched": True})
    try:
        kw = {}
        if a["fnr"]:
            kw["fnr"] = np.array([q[0] / q[1] for q in a["fnr"]])
        if a["fpr"]:
            kw["fpr"] = np.array([q[0] / q[1] for q in a["fpr"]])
        if a["thr"]:
            from .c15 import conc_thr
            kw["thresholds"] = np.array([conc_thr(g, t) for t in a["thr"]])
        kw["nb_points"] = None if a["nb"] == -1 else [a["nb"], np.int64(a["nb"])][e["id"] % 2]
        # the caller's own arrays: possibly read-only (np.broadcast_to, memmaps, pandas copy-on-write give
        # such arrays), never modified by the call
        keep = {k_: np.array(v_, copy=True) for k_, v_ in kw.items() if isinstance(v_, np.ndarray)}
        if e["id"] % 3 == 0:
            for v_ in kw.values():
                if isinstance(v_, np.ndarray):
                    v_.flags.writeable = False
        cfg = BootstrapConfig(nb_samples=5 if sampler == "scripted" else 6, bootstrap_method=method,
                              sampling_method=(lambda x: x) if identity else scripted_sampler if sampler == "scripted" else sampler,
                              stratified_sampling="by_label" if sampler == "replacement" and np_seed % 2 else None)
        np.random.seed(np_seed)
        pos_before, neg_before = np.array(s.pos, copy=True), np.array(s.neg, copy=True)
        c = fns[fn_name](s, alpha=alpha / 1000.0, config=cfg, **kw)
        e["out"]["inputs_untouched"] = bool(all(np.array_equal(kw[k_], v_) for k_, v_ in keep.items())
                                            and np.array_equal(s.pos, pos_before) and np.array_equal(s.neg, neg_before))
        th = np.asarray(c.thresholds)               # as returned (extended precision stays extended)
        n = len(th)
        m = np.asarray(s.cm(th).matrix)
        r = e["out"]
        r["cm"] = [[int(x[0, 0]), int(x[0, 1]), int(x[1, 0]), int(x[1, 1])] for x in m]
        r["fnr"], r["fpr"] = rats(c.fnr), rats(c.fpr)
        fc, pc = np.asarray(c.fnr_ci, dtype=float), np.asarray(c.fpr_ci, dtype=float)
        r["shape_ok"] = bool(fc.shape == (n, 2) and pc.shape == (n, 2))
        r["nan_free"] = bool(not np.isnan(fc).any() and not np.isnan(pc).any())
        if r["shape_ok"]:
            r["fnr_ci"] = [[fx6(x[0]), fx6(x[1])] for x in fc]
            r["fpr_ci"] = [[fx6(x[0]), fx6(x[1])] for x in pc]
        # the derived interval views of the returned curve (beyond the listed property: EXT clause)
        r["views_ci"] = {}
        for v in ("tpr_ci", "tnr_ci", "frr_ci", "far_ci", "tar_ci", "trr_ci"):
            a_ = getattr(c, v)
            r["views_ci"][v] = [] if a_ is None or np.asarray(a_).shape != (n, 2) else \
                [[fx6(x[0]), fx6(x[1])] for x in np.asarray(a_, dtype=float)]
        if fn_name == "roc_with_ci" and sampler == "scripted" and len(stored) == 6:
            from score_analysis.utils import bootstrap_ci as _ci
            pool = stored[:5]
            cf, cp = np.asarray(c.fnr, dtype=float), np.asarray(c.fpr, dtype=float)
            r["fnr6"], r["fpr6"] = [fx6(x) for x in cf], [fx6(x) for x in cp]
            reps_fnr = np.stack([np.asarray(p_.fnr(p_.threshold_at_fpr(cp)), dtype=float) for p_ in pool])
            reps_fpr = np.stack([np.asarray(p_.fpr(p_.threshold_at_fnr(cf)), dtype=float) for p_ in pool])
            est_fnr = np.asarray(s.fnr(s.threshold_at_fpr(cp)), dtype=float)
            est_fpr = np.asarray(s.fpr(s.threshold_at_fnr(cf)), dtype=float)
            b1 = np.asarray(_ci(theta=reps_fnr, theta_hat=est_fnr, alpha=alpha / 1000.0, method=method))
            b2 = np.asarray(_ci(theta=reps_fpr, theta_hat=est_fpr, alpha=alpha / 1000.0, method=method))
            r["boot_fnr"] = [[fx6(x[0]), fx6(x[1])] for x in b1]
            r["boot_fpr"] = [[fx6(x[0]), fx6(x[1])] for x in b2]
        if fn_name == "roc_with_ci" and identity:
            # what every replicate equals under an identity sampler (same public API)
            r["u"] = rats(s.fnr(s.threshold_at_fpr(np.asarray(c.fpr))))
            r["w"] = rats(s.fpr(s.threshold_at_fnr(np.asarray(c.fnr))))
    except Exception as ex:  # noqa
        e["exc"] = f"{type(ex).__name__}: {ex}"[:200]


def band_big_events(ids, cid0, tier):
    """classes of 700 .. 1e6 scored samples, one supplied threshold beyond every score (one rate is
    exactly 0, the other exactly 1): the rule of three in units of 1/n"""
    from score_analysis import BootstrapConfig, Scores, roc_with_ci
    sizes = [(700, 1000), (3000, 4000), (6003, 20002), (4000, 6003), (50003, 3000), (1000001, 700)]
    evs = []
    for k, (npos, nneg) in enumerate(sizes if tier == "thorough" else sizes[:4]):
        for j, alpha in enumerate([50, 500, 100, 900][k % 2::2]):
            for end in ("below", "above"):
                sc = ["pos", "neg"][(k + j) % 2]
                e = {"id": next(ids), "cid": cid0, "op": "band_big", "exc": "", "conc": "big", "alpha": alpha,
                     "npos": npos, "nneg": nneg, "end": end, "n_zero": 0, "n_one": 0, "wn6_zero_side": -1,
                     "wn6_one_side": -1, "zero_side_starts_at_zero": False, "one_side_ends_at_one": False}
                try:
                    # both classes span exactly [0, 2]: only thresholds beyond every score have a rate of 0 / 1,
                    # so the envelope at the end point is the end point's own rectangle
                    s = Scores(np.linspace(0.0, 2.0, npos), np.linspace(0.0, 2.0, nneg), score_class=sc,
                               equal_class="pos" if end == "below" else "neg")
                    cfg = BootstrapConfig(nb_samples=4, sampling_method=lambda x: x, bootstrap_method="quantile")
                    t = -5.0 if end == "below" else 9.0
                    c = roc_with_ci(s, alpha=alpha / 1000.0, config=cfg, thresholds=np.array([t]), nb_points=None)
                    i = int(np.argmin(np.abs(np.asarray(c.thresholds, dtype=float) - t)))
                    if float(np.asarray(c.thresholds)[i]) != t:
                        raise AssertionError("the supplied threshold is not on the curve")
                    fnr, fpr = float(np.asarray(c.fnr)[i]), float(np.asarray(c.fpr)[i])
                    fc, pc = np.asarray(c.fnr_ci, dtype=float)[i], np.asarray(c.fpr_ci, dtype=float)[i]
                    if {fnr, fpr} != {0.0, 1.0}:
                        raise AssertionError(f"not an end point: fnr={fnr} fpr={fpr}")
                    (zc, nz), (oc, no) = ((fc, npos), (pc, nneg)) if fnr == 0.0 else ((pc, nneg), (fc, npos))
                    e["n_zero"], e["n_one"] = nz, no
                    e["zero_side_starts_at_zero"] = bool(zc[0] == 0.0)
                    e["one_side_ends_at_one"] = bool(oc[1] == 1.0)
                    e["wn6_zero_side"] = int(round(min(2000.0, zc[1] * nz) * 1e6))
                    e["wn6_one_side"] = int(round(min(2000.0, (1.0 - oc[0]) * no) * 1e6))
                except Exception as ex:  # noqa
                    e["exc"] = f"{type(ex).__name__}: {ex}"[:200]
                evs.append(e)
    return evs


def events_for_case(o, cid, g, ids, seed, tier):
    evs = []
    ev = sd.make_ev(evs, ids, cid, g)
    s = sd.new_event(ev, o, g, h=1)
    if s is None:
        return evs
    methods = ["quantile", "bc", "bca"]
    for j, a in enumerate(ARGS):
        if tier == "quick" and (cid + j) % 2 and len(o["pos"]) + len(o["neg"]) > 2 and o["ep"] < 40:
            continue                       # quick tier: every other argument combination per object
        alpha = [50, 100, 500, 900][(cid // 2 + j) % 4]     # the whole range of (0, 1), incl. alpha >= 1/2
        band_event(ev, s, o, g, "roc_with_ci", a, alpha, "identity", methods[(cid + j) % 3], seed + cid)
        if (cid + j) % 3 == 0 or tier == "thorough":
            band_event(ev, s, o, g, "roc_with_ci", a, alpha,
                       ["replacement", "single_pass", "dynamic"][(cid + j) % 3], methods[j % 3], seed + cid + j)
        if (cid + j) % 3 == 1 or tier == "thorough":
            band_event(ev, s, o, g, "roc_with_ci", a, alpha, "scripted", methods[(cid + j) % 3], seed + cid + j)
        fn2 = ["pointwise_band_ci", "simultaneous_joint_region_ci", "fixed_width_band_ci"][(cid + j) % 3]
        if fn2 == "fixed_width_band_ci" and (a["fnr"] or a["fpr"] or a["thr"]):
            fn2 = "pointwise_band_ci"        # the property scopes FWB to nb_points / all scores
        band_event(ev, s, o, g, fn2, a, alpha, ["identity", "replacement"][(cid + j) % 2], methods[j % 3],
                   seed + cid + 7 * j)
    return evs


def run(ctx: core.Ctx):
    core.import_repo()
    par = TIERS[ctx.tier]
    tables = core.VERIF / "gen" / "tables.json"
    ctx.model("MC_C16", MC_CFG.format(**par), env={"TABLES_FILE": tables}, timeout=7200)
    cases = objects(par)
    fam = [gamma.ident(), gamma.affine(2.0, 1.0), gamma.ident_ld()]
    ids = iter(range(1, 10**9))
    events = []
    for cid, o in enumerate(cases):
        g = fam[(cid + ctx.seed) % len(fam)]
        events += events_for_case(o, cid, g, ids, ctx.seed, ctx.tier)
        vals = list(o["pos"]) + list(o["neg"])
        if len(set(vals)) < len(vals) or o["ep"] or o["en"]:
            ctx.nontrivial.add(json.dumps(o, sort_keys=True))
    events += band_big_events(ids, len(cases), ctx.tier)
    cases.append({"kind": "big_classes"})
    ctx.sample(events[1])
    ctx.judge("Trace_C16", events, cases=cases, batch=1500, env_extra={"TABLES_FILE": str(tables)})
    ctx.rule = ("every small object (both classes non-empty, ties, easy samples, 4 configs) x 7 argument "
                "combinations x {roc_with_ci under identity sampler (closed form), roc_with_ci under seeded "
                "built-in samplers, one experimental band function}; non-trivial = ties or easy samples")
    ctx.exhaustive = True
    ctx.extra["constants"] = par
    ctx.assumptions = ["alpha^(1/n) tabulated from the Python standard library (1e-6)",
                       "closed form uses the rates the same object reports at threshold_at_fpr(fpr)/threshold_at_fnr(fnr)"]
    return ctx.finish()


def replay(ctx: core.Ctx, body):
    core.import_repo()
    tables = core.VERIF / "gen" / "tables.json"
    o = body["case"]
    ids = iter(range(1, 10**9))
    events = []
    for k in range(6):
        events += events_for_case(o, k, gamma.ident(), ids, ctx.seed, "thorough")
    ctx.judge("Trace_C16", events, cases=[o] * 6, env_extra={"TABLES_FILE": str(tables)})
    return ctx.finish()
