"""C01 - confusion matrix at a threshold equals counting by the documented rule.

Leg A: TLC on MC_C01 (constructor in any argument order, is_sorted fast path,
swap; CodedCM = CountCM, totals, pointwise sum, at every threshold position).
Leg B: every argument tuple TLC emitted is replayed into score_analysis.Scores.
Leg C: the recorded trace is validated by TLC against Trace_C01.
"""
from __future__ import annotations

import json

import numpy as np

from .. import core, gamma

PROP = "C01"
RATE_NAMES = ["tpr", "fnr", "tnr", "fpr", "topr", "tonr",
              "tar", "frr", "trr", "far", "acceptance_rate", "rejection_rate"]

MC_CFG = """SPECIFICATION Spec
CONSTANTS
  K = {K}
  MaxP = {MaxP}
  MaxN = {MaxN}
  EasyPairs <- {Easy}
INVARIANT InvSorted
INVARIANT InvCodedIsCount
INVARIANT InvTotals
INVARIANT InvPointwise
INVARIANT InvSwap
INVARIANT InvMonotone
POSTCONDITION EmitCases
CHECK_DEADLOCK FALSE
"""

TIERS = {
    "quick": dict(K=3, MaxP=3, MaxN=3, Easy="EasyQuick"),
    "thorough": dict(K=4, MaxP=3, MaxN=3, Easy="EasyThorough"),
}


def thresholds(K, gam, full=True):
    """(t2 list, float list): every position, every flavour."""
    if gam.name == "big_int":
        t2s = [t for t in range(-2, 2 * K + 1) if t % 2 == 0]
        return t2s, [gam.thr(t) for t in t2s]
    t2s, ths = [], []
    for t2 in range(-1, 2 * K):
        if t2 % 2 == 0:
            fl = ["mid"]
        elif not full:
            fl = ["mid"]
        else:
            fl = ["mid", "lo", "hi"]
        for f in fl:
            t2s.append(t2)
            ths.append(gam.thr(t2, f))
    if full:
        t2s += [-1, 2 * K - 1]
        ths += [-np.inf, np.inf]
    return t2s, ths


class _IntInv:
    """exact inverse for int64 images (float() would merge neighbours above 2^53)"""
    def __init__(self, gam, K):
        self.m = {int(gam(v)): v for v in range(-1, K + 1)}

    def get(self, x, default):
        return self.m.get(int(x), default)


def alpha_obj(s, inv):
    def back(a):
        if isinstance(inv, _IntInv):
            return [inv.get(int(x), -999) for x in np.asarray(a).tolist()]
        return [inv.get(float(x), -999) for x in np.asarray(a).tolist()]
    return {"pos": back(s.pos), "neg": back(s.neg), "ep": int(s.nb_easy_pos),
            "en": int(s.nb_easy_neg), "sc": s.score_class.value, "ec": s.equal_class.value}


def cm_rows(m):
    m = np.asarray(m)
    return [[int(r[0, 0]), int(r[0, 1]), int(r[1, 0]), int(r[1, 1])] for r in m.reshape(-1, 2, 2)]


def events_for_case(a, cid, gam, K, ids):
    """Drive the real code along one specification behaviour:
    New -> cm -> rates -> pointwise -> Swap -> cm."""
    from score_analysis import Scores, pointwise_cm

    inv = {float(gam(v)): v for v in range(-1, K + 1)}
    if gam.name == "big_int":
        inv = _IntInv(gam, K)
    evs = []

    def ev(op, **kw):
        e = {"id": next(ids), "cid": cid, "op": op, "exc": "", "conc": gam.name}
        e.update(kw)
        evs.append(e)
        return e

    pos, neg = gam.arr(a["p"]), gam.arr(a["n"])
    # the flag as a Python bool, a NumPy bool (e.g. the result of np.all(np.diff(x) >= 0)) or an int
    flag = [a["sorted"], np.bool_(a["sorted"]), int(a["sorted"])][cid % 3]
    kw = dict(nb_easy_pos=a["ep"], nb_easy_neg=a["en"], score_class=a["sc"],
              equal_class=a["ec"], is_sorted=flag)
    via_labels = cid % 2 == 1
    e = ev("New", h=1, args=a, via="from_labels" if via_labels else "init",
           post={"pos": [], "neg": [], "ep": 0, "en": 0, "sc": "pos", "ec": "pos"})
    try:
        if via_labels:
            labels = np.array([1] * len(pos) + [0] * len(neg))
            sc_all = np.concatenate([pos, neg]).astype(gam.dtype)
            if not a["sorted"]:
                # interleave so that the constructor really has to separate classes
                order = np.argsort(np.arange(len(labels)) % 2, kind="stable")
                labels, sc_all = labels[order], sc_all[order]
            s = Scores.from_labels(labels, sc_all, pos_label=1, **kw)
        elif cid % 5 == 2 and pos.dtype == np.float64 and len(pos) and len(neg):
            # both classes handed over as memoryview slices of ONE buffer, overlapping where the end of the
            # positives equals the beginning of the negatives; the caller's buffer must stay as it is
            pl, nl = pos.tolist(), neg.tolist()
            k_ = max(j for j in range(min(len(pl), len(nl)) + 1) if pl[len(pl) - j:] == nl[:j])
            buf = np.array(pl + nl[k_:], dtype=float)
            keep_ = buf.copy()
            mv = memoryview(buf)
            e["via"] = f"memoryview(overlap={k_})"
            s = Scores(mv[: len(pl)], mv[len(buf) - len(nl):], **kw)
            if not np.array_equal(buf, keep_):
                raise AssertionError("the constructor modified the caller's buffer")
        else:
            s = Scores(pos, neg, **kw)
        e["post"] = alpha_obj(s, inv)
        # size / ratio accessors and equality (beyond the listed property: EXT clause)
        e["sizes"] = {k_: int(getattr(s, k_)) for k_ in ("nb_hard_pos", "nb_hard_neg", "nb_hard_samples", "nb_all_pos",
                                                        "nb_all_neg", "nb_all_samples", "nb_easy_samples")}
        e["ratios"] = {k_: gamma.proj_rat(getattr(s, k_), 2000) for k_ in
                       ("hard_pos_ratio", "hard_neg_ratio", "easy_pos_ratio", "easy_neg_ratio", "easy_ratio", "hard_ratio")} \
            if len(pos) + a["ep"] > 0 and len(neg) + a["en"] > 0 else {}
        twin = Scores(np.sort(pos), np.sort(neg), **dict(kw, is_sorted=True))
        e["eq_twin"] = bool(s == twin and twin == s)
        e["neq_other"] = bool(not (s == Scores(np.sort(pos), np.sort(neg), **dict(kw, is_sorted=True, nb_easy_pos=a["ep"] + 1))))
    except Exception as ex:  # noqa
        e["exc"] = f"{type(ex).__name__}: {ex}"[:200]
        return evs

    def q_cm(h, obj):
        t2s, ths = thresholds(K, gam, full=True)
        e = ev("cm", h=h, t2=t2s, out=[])
        try:
            shape = (len(ths),) if h == 1 else (3, len(ths) // 3) if len(ths) % 3 == 0 else (len(ths),)
            buf = np.array(ths).reshape(shape)
            m = obj.cm(buf).matrix
            e["out"] = cm_rows(m)
        except Exception as ex:  # noqa
            e["exc"] = f"{type(ex).__name__}: {ex}"[:200]
            return
        # the caller re-uses the SAME array object, modified in place, for the next query
        rev = list(reversed(range(len(ths))))
        e2 = ev("cm", h=h, t2=[t2s[i] for i in rev], out=[])
        try:
            buf[...] = np.array([ths[i] for i in rev]).reshape(shape)
            e2["out"] = cm_rows(obj.cm(buf).matrix)
        except Exception as ex:  # noqa
            e2["exc"] = f"{type(ex).__name__}: {ex}"[:200]

    q_cm(1, s)
    if cid % 4001 == 7 and gam.name != "big_int":
        # ONE vectorised call with more than 2^20 thresholds in no particular order; 240 positions of the
        # result are recorded (first, last, random ones)
        t2s, ths = thresholds(K, gam, full=True)
        rnd = np.random.RandomState(cid)
        idx = rnd.randint(0, len(ths), (1 << 20) + 4097)
        e = ev("cm", h=1, t2=[], out=[], big=int(len(idx)))
        try:
            m = np.asarray(s.cm(np.array(ths)[idx]).matrix)
            pick = np.concatenate([[0, len(idx) - 1], rnd.randint(0, len(idx), 238)])
            e["t2"] = [t2s[int(idx[i])] for i in pick]
            e["out"] = cm_rows(m[pick]) if m.shape == (len(idx), 2, 2) else []
        except Exception as ex:  # noqa
            e["exc"] = f"{type(ex).__name__}: {ex}"[:200]

    t2s, ths = thresholds(K, gam, full=False)
    e = ev("rates", h=1, t2=t2s, out={m: [] for m in RATE_NAMES})
    try:
        for m in RATE_NAMES:
            r = getattr(s, m)(np.array(ths))
            e["out"][m] = [gamma.proj_rat(x, 1000) for x in np.asarray(r).reshape(-1)]
    except Exception as ex:  # noqa
        e["exc"] = f"{type(ex).__name__}: {ex}"[:200]

    if cid % 4 == 0:
        lab = [1] * len(a["p"]) + [0] * len(a["n"])
        scs = list(a["p"]) + list(a["n"])
        t2s, ths = thresholds(K, gam, full=False)
        e = ev("pointwise", args={"labels": lab, "scores": scs, "sc": a["sc"], "ec": a["ec"]},
               t2=t2s, out=[])
        try:
            labs, scs = np.array(lab), np.concatenate([pos, neg])
            if len(lab) >= 4 and len(lab) % 2 == 0 and cid % 8 == 0:
                # 2-D inputs whose memory layouts differ: C-ordered labels, F-ordered scores
                labs = labs.reshape(2, -1)
                scs = np.asfortranarray(scs.reshape(2, -1))
            arr = pointwise_cm(labs, scs, np.array(ths),
                               pos_label=1, score_class=a["sc"], equal_class=a["ec"])
            arr = np.asarray(arr).astype(int)
            if arr.shape[:-3] != np.shape(labs) or arr.shape[-3:] != (len(ths), 2, 2):
                raise AssertionError(f"pointwise_cm shape {arr.shape}")
            arr = arr.reshape(len(lab), len(ths), 2, 2)
            e["out"] = [[[int(c[0, 0]), int(c[0, 1]), int(c[1, 0]), int(c[1, 1])] for c in row]
                        for row in arr]
        except Exception as ex:  # noqa
            e["exc"] = f"{type(ex).__name__}: {ex}"[:200]

    e = ev("Swap", h=1, h2=2, post={"pos": [], "neg": [], "ep": 0, "en": 0, "sc": "pos", "ec": "pos"})
    try:
        s2 = s.swap()
        e["post"] = alpha_obj(s2, inv)
    except Exception as ex:  # noqa
        e["exc"] = f"{type(ex).__name__}: {ex}"[:200]
        return evs
    q_cm(2, s2)
    if cid % 3 == 0:
        # a copy (shallow / deep / through pickle, every protocol) of the first object answers like it
        import copy
        import pickle
        how = ["copy", "deepcopy", "pickle"][(cid // 3) % 3]
        e = ev("Copy", h=1, h2=5, how=how, post={"pos": [], "neg": [], "ep": 0, "en": 0, "sc": "pos", "ec": "pos"})
        try:
            s5 = copy.copy(s) if how == "copy" else copy.deepcopy(s) if how == "deepcopy" else \
                pickle.loads(pickle.dumps(s, protocol=(cid // 9) % (pickle.HIGHEST_PROTOCOL + 1)))
            e["post"] = alpha_obj(s5, inv)
            q_cm(5, s5)
        except Exception as ex:  # noqa
            e["exc"] = f"{type(ex).__name__}: {ex}"[:200]
    return evs


def forms_and_large(ctx, ids, cid0):
    """Independent trace: (i) the same small object built from lists / tuples / pandas Series and
    queried with thresholds given as list / tuple / Series / Python int / 0-d array; (ii) large
    objects (hundreds to thousands of scores with ties) probed at thresholds on and around scores."""
    import pandas as pd
    from score_analysis import Scores
    rnd = np.random.RandomState(ctx.seed + 303)
    events, cases = [], []
    g = gamma.ident()
    for k in range(24 if ctx.tier == "quick" else 200):
        npos, nneg = int(rnd.randint(0, 5)), int(rnd.randint(0, 5))
        a = {"p": [int(x) for x in rnd.randint(0, 4, npos)], "n": [int(x) for x in rnd.randint(0, 4, nneg)],
             "ep": int(rnd.randint(0, 3)), "en": int(rnd.randint(0, 3)), "sc": ["pos", "neg"][k % 2],
             "ec": ["pos", "neg"][(k // 2) % 2], "sorted": False}
        cid = cid0 + len(cases)
        cases.append(dict(a, kind="forms"))
        evs = []
        def ev(op, **kw):
            e = {"id": next(ids), "cid": cid, "op": op, "exc": "", "conc": "forms"}
            e.update(kw)
            evs.append(e)
            return e
        wrap = [list, tuple, lambda x: pd.Series(x, dtype=float), lambda x: np.array(x, dtype=float)][k % 4]
        e = ev("New", h=1, args=a, via="forms", post={"pos": [], "neg": [], "ep": 0, "en": 0, "sc": "pos", "ec": "pos"})
        try:
            s = Scores(wrap([float(v) for v in a["p"]]), wrap([float(v) for v in a["n"]]), nb_easy_pos=a["ep"],
                       nb_easy_neg=a["en"], score_class=a["sc"], equal_class=a["ec"])
            e["post"] = alpha_obj(s, {float(v): v for v in range(-1, 6)})
            t2s = [-1, 0, 1, 2, 3, 4, 5, 7]
            ths = [g.thr(t) for t in t2s]
            for form in (list(ths), tuple(ths), pd.Series(ths), np.array(ths).reshape(2, 4)):
                e2 = ev("cm", h=1, t2=t2s, out=[])
                try:
                    e2["out"] = cm_rows(s.cm(form).matrix)
                except Exception as ex:  # noqa
                    e2["exc"] = f"{type(ex).__name__}: {ex}"[:200]
            for t2 in (0, 2, 4):                 # Python int and 0-d array thresholds
                for form in (int(t2 // 2), np.array(float(t2 // 2))):
                    e2 = ev("cm", h=1, t2=[t2], out=[])
                    try:
                        e2["out"] = cm_rows(s.cm(form).matrix)
                    except Exception as ex:  # noqa
                        e2["exc"] = f"{type(ex).__name__}: {ex}"[:200]
        except Exception as ex:  # noqa
            e["exc"] = f"{type(ex).__name__}: {ex}"[:200]
        events += evs
    for k, n in enumerate([130, 1100] if ctx.tier == "quick" else [130, 260, 1100, 2500, 5000]):
        npos = n // 2 + 7 * k
        vals = rnd.randint(0, max(8, n // 6), n)           # many ties within and across classes
        a = {"p": [int(x) for x in vals[:npos]], "n": [int(x) for x in vals[npos:]],
             "ep": int(rnd.randint(0, 50)), "en": int(rnd.randint(0, 50)), "sc": ["pos", "neg"][k % 2],
             "ec": ["pos", "neg"][(k // 2) % 2], "sorted": False}
        cid = cid0 + len(cases)
        cases.append({"kind": "large", "n": n, "np_seed": ctx.seed + 303})
        e = {"id": next(ids), "cid": cid, "op": "New", "exc": "", "conc": "large", "h": 1, "args": a, "via": "init",
             "post": {"pos": [], "neg": [], "ep": 0, "en": 0, "sc": "pos", "ec": "pos"}}
        events.append(e)
        try:
            s = Scores(np.array(a["p"], dtype=float), np.array(a["n"], dtype=float), nb_easy_pos=a["ep"],
                       nb_easy_neg=a["en"], score_class=a["sc"], equal_class=a["ec"])
            e["post"] = {"pos": [int(x) for x in s.pos], "neg": [int(x) for x in s.neg], "ep": a["ep"], "en": a["en"],
                         "sc": a["sc"], "ec": a["ec"]}
            vs = sorted(set(int(x) for x in vals))
            pick = [vs[0], vs[len(vs) // 3], vs[len(vs) // 2], vs[-2], vs[-1]]
            t2s, ths = [], []
            for v in pick:
                for d, f in ((-1, "hi"), (0, "mid"), (1, "lo")):
                    t2s.append(2 * v + d)
                    ths.append(g.thr(2 * v + d, f))
            e2 = {"id": next(ids), "cid": cid, "op": "cm", "exc": "", "conc": "large", "h": 1, "t2": t2s, "out": []}
            events.append(e2)
            e2["out"] = cm_rows(s.cm(np.array(ths)).matrix)
        except Exception as ex:  # noqa
            e["exc"] = f"{type(ex).__name__}: {ex}"[:200]
    return events, cases


def rank_gamma(values):
    """gamma for an object the library produced: abstract value = dense rank."""
    xs = sorted(set(float(v) for v in values))
    n = len(xs)
    span = (xs[-1] - xs[0] + 1.0) if xs else 1.0

    def fn(v):
        if not xs:
            return float(v)
        if v < 0:
            return xs[0] + v * span
        if v >= n:
            return xs[-1] + (v - n + 1) * span
        return xs[v]
    return gamma.Gamma("ranks", fn, None), {x: i for i, x in enumerate(xs)}, max(n, 1)


def sample_case_events(case, cid, ids):
    from score_analysis import BootstrapConfig, Scores
    src_d = dict(case["source"])
    src = Scores(np.array(src_d.pop("pos")), np.array(src_d.pop("neg")), **src_d)
    evs = []
    np.random.seed(case["np_seed"])
    e = {"id": next(ids), "cid": cid, "op": "Adopt", "exc": "", "conc": "ranks", "h": 1,
         "post": {"pos": [], "neg": [], "ep": 0, "en": 0, "sc": "pos", "ec": "pos"}}
    evs.append(e)
    try:
        smp = src.bootstrap_sample(BootstrapConfig(**case["config"]))
        g, rank, K = rank_gamma(list(smp.pos) + list(smp.neg))
        e["post"] = {"pos": [rank[float(x)] for x in smp.pos],
                     "neg": [rank[float(x)] for x in smp.neg],
                     "ep": int(smp.nb_easy_pos), "en": int(smp.nb_easy_neg),
                     "sc": smp.score_class.value, "ec": smp.equal_class.value}
        t2s, ths = thresholds(K, g, full=True)
        e2 = {"id": next(ids), "cid": cid, "op": "cm", "exc": "", "conc": "ranks", "h": 1,
              "t2": t2s, "out": []}
        evs.append(e2)
        try:
            e2["out"] = cm_rows(smp.cm(np.array(ths)).matrix)
        except Exception as ex:  # noqa
            e2["exc"] = f"{type(ex).__name__}: {ex}"[:200]
    except Exception as ex:  # noqa
        e["exc"] = f"{type(ex).__name__}: {ex}"[:200]
    return evs


def sample_behaviours(ctx, ids, cid0):
    """Independent trace: objects the library itself produces (bootstrap samples in
    every sampling mode, incl. smoothing) must satisfy the same counting rule."""
    from score_analysis import BootstrapConfig, Scores
    rnd = np.random.RandomState(ctx.seed + 101)
    cfgs = []
    for method in ("replacement", "single_pass", "dynamic", "proportion"):
        for strat in (None, "by_label"):
            for smooth in (False, True):
                if smooth and method not in ("replacement", "dynamic"):
                    continue
                cfgs.append(dict(sampling_method=method, stratified_sampling=strat,
                                 smoothing=smooth, ratio=0.6 if method == "proportion" else None))
    nsrc = 12 if ctx.tier == "quick" else 60
    events, cases = [], []
    for j in range(nsrc):
        npos, nneg = int(rnd.randint(2, 9)), int(rnd.randint(2, 9))
        pos = np.round(rnd.normal(1.0, 1.0, npos), 1)     # rounding creates ties
        neg = np.round(rnd.normal(0.0, 1.0, nneg), 1)
        kw = dict(nb_easy_pos=int(rnd.randint(0, 3)), nb_easy_neg=int(rnd.randint(0, 3)),
                  score_class=["pos", "neg"][j % 2], equal_class=["pos", "neg"][(j // 2) % 2])
        for c in cfgs:
            cid = cid0 + len(cases)
            case = {"source": {"pos": pos.tolist(), "neg": neg.tolist(), **kw}, "config": c,
                    "np_seed": int(ctx.seed + 7 * cid)}
            cases.append(case)
            events += sample_case_events(case, cid, ids)
    return events, cases


def nontrivial_key(a):
    """a case is non-trivial when it has a tie (within or across classes) or easy
    samples or unsorted input - the situations the test-suite rows do not combine."""
    vals = list(a["p"]) + list(a["n"])
    tie = len(set(vals)) < len(vals)
    unsorted_ = list(a["p"]) != sorted(a["p"]) or list(a["n"]) != sorted(a["n"])
    if tie or unsorted_ or a["ep"] or a["en"]:
        return json.dumps(a, sort_keys=True)
    return None


def run(ctx: core.Ctx):
    core.import_repo()
    par = TIERS[ctx.tier]
    cases_file = ctx.work / "cases.json"
    ctx.model("MC_C01", MC_CFG.format(**par), env={"CASES_FILE": cases_file})
    data = json.loads(cases_file.read_text())
    K, cases = data["k"], data["cases"]
    fam = gamma.family(ctx.tier, ctx.seed)
    ids = iter(range(1, 10**9))
    events = []
    for cid, a in enumerate(cases):
        gams = fam if ctx.tier == "thorough" and cid % 8 == 0 else [fam[(cid + ctx.seed) % len(fam)]]
        if cid % 5 == 0 and all(v in (0, 1) for v in list(a["p"]) + list(a["n"])):
            gams = [gamma.ident_bool()]          # hard 0/1 decisions stored as booleans
        elif cid % 7 == 3:
            gams = [gamma.big_int()]             # int64 scores beyond float64's integer range
        elif cid % 11 == 5:                      # narrow integers saturating at the top of their dtype
            gams = [gamma.int_top(K, [np.uint8, np.int8, np.int16, np.uint16][(cid // 11) % 4])]
        for g in gams:
            events += events_for_case(a, cid, g, K, ids)
        k = nontrivial_key(a)
        if k:
            ctx.nontrivial.add(k)
    sev, scases = sample_behaviours(ctx, ids, len(cases))
    events += sev
    cases = cases + scases
    ctx.extra["library_produced_objects"] = len(scases)
    fev, fcases = forms_and_large(ctx, ids, len(cases))
    events += fev
    cases = cases + fcases
    ctx.extra["argument_forms_and_large_objects"] = len(fcases)
    for e in events[:3]:
        ctx.sample(e)
    ctx.judge("Trace_C01", events, cases=cases)
    ctx.rule = ("cases = every constructor argument tuple of the bounded model (all sequences in any "
                "order over K values, both classes, easy pairs, 4 configs, is_sorted fast path on "
                "ascending input), each replayed into Scores/from_labels/swap/cm/rates/pointwise_cm "
                "at every threshold position and ulp flavour; non-trivial = has a tie, easy samples "
                "or unsorted input")
    ctx.exhaustive = True
    ctx.extra["constants"] = par
    ctx.extra["concretisations"] = [g.name for g in fam]
    ctx.assumptions = ["small-scope: exhaustive only within the stated constants",
                       "float behaviour exercised through the listed concretisations"]
    return ctx.finish()


def replay(ctx: core.Ctx, body):
    core.import_repo()
    a = body["case"]
    if a.get("kind") in ("forms", "large"):
        ev_, cs_ = forms_and_large(ctx, iter(range(1, 10**9)), 0)
        ctx.judge("Trace_C01", ev_, cases=cs_)
        return ctx.finish()
    if "source" in a:
        ctx.judge("Trace_C01", sample_case_events(a, 0, iter(range(1, 10**9))), cases=[a])
        return ctx.finish()
    K = max([2] + [v + 1 for v in a["p"] + a["n"]])
    K = max(K, TIERS["quick"]["K"])
    ids = iter(range(1, 10**9))
    events = []
    for g in gamma.family("thorough", ctx.seed):
        events += events_for_case(a, 0, g, K, ids)
    ctx.judge("Trace_C01", events, cases=[a])
    return ctx.finish()
