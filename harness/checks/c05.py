"""C05 - multiclass confusion matrices: faithful construction, one-vs-all.

Leg A: TLC on MC_C05 (matrix grows one weighted sample at a time; locality of
AddSample, population, one-vs-all structure, permutation equivariance).
Leg B: every sample sequence TLC enumerated is built by the real
ConfusionMatrix, re-entered as nested list / dict of dicts / DataFrame under a
class permutation, binarised, and its per-class metrics taken as array, as dict,
permuted and stacked.  Leg C: TLC validates the record (Trace_C05).
"""
from __future__ import annotations

import itertools
import json

import numpy as np

from .. import core, gamma

PROP = "C05"
MC_CFG = """SPECIFICATION Spec
CONSTANTS
  NC = {NC}
  MaxLen = {MaxLen}
  Weights = {{1, 2}}
INVARIANT InvPopulation
INVARIANT InvOneVsAll
INVARIANT InvEquivariant
INVARIANT InvAccuracy
INVARIANT InvAutoClasses
PROPERTY AddIsLocal
POSTCONDITION EmitCases
CHECK_DEADLOCK FALSE
"""
TIERS = {"quick": dict(NC=3, MaxLen=3), "thorough": dict(NC=3, MaxLen=4)}
METRICS = ["tpr", "tnr", "fpr", "fnr", "ppv", "npv", "fdr", "for_", "topr", "tonr",
           "class_accuracy", "class_error_rate"]
COUNTS = ["tp", "fn", "fp", "tn", "p", "n", "top", "ton"]


def rats(a):
    return [gamma.proj_rat(x, 1000) for x in np.asarray(a, dtype=float).reshape(-1)]


def mat_ints(m, ws):
    a = np.asarray(m, dtype=float) * ws
    return [[int(round(x)) if abs(x - round(x)) < 1e-9 else -1 for x in row] for row in a]


def event_for_case(samples, cid, nc, ids, variant):
    import pandas as pd
    from score_analysis import ConfusionMatrix
    ws = 2 if variant % 2 else 1                     # weights w/ws
    perms = list(itertools.permutations(range(nc)))
    explicit = (variant // 2) % 2 == 1
    classes_arg = list(perms[(cid + variant) % len(perms)]) if explicit else []
    e = {"id": next(ids), "cid": cid, "op": "cmcase", "exc": "", "samples": samples, "wscale": ws,
         "classes_arg": classes_arg, "built": {"classes": [], "matrix": []},
         "forms": {"perm": [], "dict": [], "df": [], "list": [], "dict_classes": [], "df_classes": [],
                   "dict_default": [], "df_default": []},
         "ova": [], "counts": {}, "metrics": {}, "metrics_dict": {}, "perm_metrics": {},
         "accuracy": [0, 0], "acc_narrow": [[0, 0], [0, 0]], "stacked": {}, "stacked2": {}, "shape_ok": True}
    # class naming: integers, or strings of differing lengths (sorted like the ids) - a class that only
    # occurs among the predictions may then have the longest name / need the widest dtype
    NAMES = ["b", "cat", "other-long"]
    naming = ["int", "str", "narrow"][(cid // 2 + variant) % 3]
    WIDE = [0, 1, 300]                                   # the last id does not fit the labels' uint8
    nm = (lambda c: NAMES[c]) if naming == "str" else (lambda c: WIDE[c]) if naming == "narrow" else (lambda c: c)
    unm = (lambda x: NAMES.index(str(x))) if naming == "str" else \
        (lambda x: WIDE.index(int(x))) if naming == "narrow" else (lambda x: int(x))
    e["naming"] = naming
    labels = [nm(s[0]) for s in samples]
    preds = [nm(s[1]) for s in samples]
    if naming == "narrow":
        labels = np.array(labels, dtype=np.uint8 if max(labels) < 256 else np.int64)   # narrow label ids
        preds = np.array(preds, dtype=np.int64)                                        # default-int predictions
    used = {s[0] for s in samples} | {s[1] for s in samples} | (set(classes_arg) if explicit else set())
    if naming == "int" and used <= {0, 1} and (cid // 4 + variant) % 2:
        # hard 0/1 labels stored as booleans next to integer predictions / integer class names (True == 1)
        naming = e["naming"] = "bool"
        labels = np.array(labels, dtype=bool)
        preds = np.array(preds, dtype=np.int64)
    if explicit:
        classes_arg_real = [nm(c) for c in classes_arg]
    weights = [s[2] / ws if ws != 1 else s[2] for s in samples]
    try:
        kw = {"classes": classes_arg_real} if explicit else {}
        if all(w == 1 for w in weights) and cid % 3 == 0:
            cm = ConfusionMatrix(labels=labels, predictions=preds, **kw)       # default weights
        else:
            cm = ConfusionMatrix(labels=labels, predictions=preds, weights=weights, **kw)
    except ValueError as ex:
        e["exc"] = "ValueError"
        return e
    except Exception as ex:  # noqa
        e["exc"] = f"{type(ex).__name__}: {ex}"[:200]
        return e
    try:
        cls = [unm(c) for c in cm.classes]
        n = len(cls)
        M = np.asarray(cm.matrix)
        e["built"] = {"classes": cls, "matrix": mat_ints(M, ws)}
        ok = M.shape == (n, n)
        # equivalent inputs under a permutation of the classes
        ps = list(itertools.permutations(range(n)))
        p = ps[(cid * 7 + variant) % len(ps)]
        prm = [cls[i] for i in p]
        d = {cls[i]: {cls[j]: M[i, j] for j in range(n)} for i in range(n)}
        df = pd.DataFrame(M, index=cls, columns=cls)
        # DataFrame whose column order differs from its index order
        colp = ps[(cid * 5 + 1) % len(ps)]
        df2 = df[[cls[i] for i in colp]]
        Mp = M[np.ix_(p, p)]
        c_dict = ConfusionMatrix(matrix=d, classes=prm)
        c_df = ConfusionMatrix(matrix=df2, classes=prm)
        c_list = ConfusionMatrix(matrix=Mp.tolist(), classes=prm)
        c_dict0 = ConfusionMatrix(matrix=d)
        c_df0 = ConfusionMatrix(matrix=df2)
        e["forms"] = {"perm": prm, "dict": mat_ints(c_dict.matrix, ws), "df": mat_ints(c_df.matrix, ws),
                      "list": mat_ints(c_list.matrix, ws),
                      "dict_classes": [int(c) for c in c_dict.classes],
                      "df_classes": [int(c) for c in c_df.classes],
                      "dict_default": mat_ints(c_dict0.matrix, ws) if [int(c) for c in c_dict0.classes] == cls else [],
                      "df_default": mat_ints(c_df0.matrix, ws) if [int(c) for c in c_df0.classes] == cls else []}
        ova = cm.one_vs_all()
        om = np.asarray(ova.matrix)
        ok = ok and om.shape == (n, 2, 2) and ova.binary
        e["ova"] = [[int(round(x * ws)) for x in (b[0, 0], b[0, 1], b[1, 0], b[1, 1])] for b in om]
        for c in COUNTS:
            a = np.asarray(getattr(cm, c)(), dtype=float) * ws
            ok = ok and a.shape == (n,)
            e["counts"][c] = [int(round(x)) for x in a.reshape(-1)]
        M2 = M.T
        stacked = ConfusionMatrix(matrix=np.stack([M, M2]), classes=cls)
        for name in METRICS:
            a = np.asarray(getattr(cm, name)())
            ok = ok and a.shape == (n,)
            e["metrics"][name] = rats(a)
            dd = getattr(cm, name)(as_dict=True)
            ok = ok and list(dd.keys()) == list(cm.classes)
            e["metrics_dict"][name] = [gamma.proj_rat(dd[c], 1000) for c in cm.classes]
            e["perm_metrics"][name] = rats(getattr(c_list, name)())
            st = np.asarray(getattr(stacked, name)())
            ok = ok and st.shape == (2, n)
            e["stacked"][name] = [rats(st[0]), rats(st[1])] if st.shape == (2, n) else [[], []]
        # two leading dimensions: shape (2, 3, N, N); as_dict values must be the (2, 3) slices
        grid = [[M, M2, M], [M2, M2, M]]
        st2 = ConfusionMatrix(matrix=np.array(grid), classes=cls)
        # indexing, equality, array conversion, class count (beyond the listed property: EXT clause)
        sub = st2[1]
        e["ext"] = {"nb_classes": int(st2.nb_classes),
                    "getitem": bool(isinstance(sub, ConfusionMatrix) and np.array_equal(sub.matrix, np.array(grid)[1])
                                    and list(sub.classes) == list(st2.classes)
                                    and np.array_equal(st2[1, 2].matrix, np.array(grid)[1][2])),
                    "array": bool(np.array_equal(np.asarray(st2), np.array(grid))),
                    "eq": bool(st2 == ConfusionMatrix(matrix=np.array(grid).copy(), classes=list(cls))
                               and not (st2 == ConfusionMatrix(matrix=np.array(grid) + np.eye(n), classes=list(cls)))
                               and (n < 2 or not (st2 == ConfusionMatrix(matrix=np.array(grid), classes=list(cls)[::-1]))))}
        e["stacked2"] = {}
        for name in METRICS[:6] + ["tpr_ci"]:
            arr = np.asarray(getattr(st2, name)())
            dd = getattr(st2, name)(as_dict=True)
            if name == "tpr_ci":
                ok = ok and arr.shape == (2, 3, n, 2) and all(np.asarray(dd[c]).shape == (2, 3, 2) for c in st2.classes)
                ok = ok and all(np.array_equal(np.asarray(dd[c]), arr[:, :, j, :], equal_nan=True)
                                for j, c in enumerate(st2.classes))
                continue
            ok = ok and arr.shape == (2, 3, n) and all(np.asarray(dd[c]).shape == (2, 3) for c in st2.classes)
            if arr.shape == (2, 3, n):
                e["stacked2"][name] = {
                    "arr": [[rats(arr[a][b]) for b in range(3)] for a in range(2)],
                    "dict": [[[gamma.proj_rat(np.asarray(dd[c])[a][b], 1000) for c in st2.classes]
                              for b in range(3)] for a in range(2)]
                    if all(np.asarray(dd[c]).shape == (2, 3) for c in st2.classes) else []}
        # the same matrix stored in narrow integer dtypes (every entry fits, the trace does not)
        Mi = np.asarray(np.round(M * ws), dtype=np.int64)
        mx = max(1, int(Mi.max()))
        e["acc_narrow"] = [gamma.proj_rat(ConfusionMatrix(matrix=(Mi * (lim // mx)).astype(dt),
                                                          classes=list(cm.classes)).accuracy(), 1000)
                           for dt, lim in ((np.uint8, 255), (np.int16, 32767))]
        # the same matrix with all weights rescaled (tiny and huge populations), plain and stacked
        e["acc_scaled"] = []
        for f_ in (2.0 ** -34, 1e-12, 4.0 ** 10):
            mf = np.asarray(M, dtype=float) * f_
            e["acc_scaled"].append(gamma.proj_rat(ConfusionMatrix(matrix=mf, classes=list(cm.classes)).accuracy(), 1000))
            st_ = ConfusionMatrix(matrix=np.stack([np.asarray(M, dtype=float), mf]), classes=list(cm.classes))
            e["acc_scaled"].append(gamma.proj_rat(np.asarray(st_.accuracy())[1], 1000))
            e["acc_scaled"].append(gamma.proj_rat(1.0 - float(np.asarray(st_.error_rate())[1]), 1000)
                                   if np.asarray(st_.error_rate())[1] == np.asarray(st_.error_rate())[1] else [0, 0])
        ci = np.asarray(cm.tpr_ci(alpha=0.1))
        ok = ok and ci.shape == (n, 2)
        e["accuracy"] = gamma.proj_rat(cm.accuracy(), 1000)
        e["shape_ok"] = bool(ok)
    except Exception as ex:  # noqa
        e["exc"] = f"{type(ex).__name__}: {ex}"[:200]
    return e


def run(ctx: core.Ctx):
    core.import_repo()
    par = TIERS[ctx.tier]
    cases_file = ctx.work / "cases.json"
    ctx.model("MC_C05", MC_CFG.format(**par), env={"CASES_FILE": cases_file})
    data = json.loads(cases_file.read_text())
    nc, cases = data["nc"], data["cases"]
    ids = iter(range(1, 10**9))
    evs = []
    for cid, smp in enumerate(cases):
        smp = [list(s) for s in smp]
        if ctx.tier == "quick" and len(smp) == par["MaxLen"] and (cid + ctx.seed) % 2:
            continue                      # quick tier: every other sequence of maximal length
        nv = 2 if ctx.tier == "thorough" else 1
        for v in range(nv):
            evs.append(event_for_case(smp, cid, nc, ids, (cid + ctx.seed + v) % 4))
        if len({s[0] for s in smp} | {s[1] for s in smp}) >= 2 and any(s[0] != s[1] for s in smp):
            ctx.nontrivial.add(json.dumps(smp))
    ctx.sample(evs[len(evs) // 2])
    ctx.judge("Trace_C05", evs, cases=cases, batch=1500)
    ctx.rule = ("every (label, prediction, weight) sequence up to MaxLen over NC classes with weights "
                "{1,2} (and halves), classes auto or an explicit permutation; non-trivial = at least "
                "two classes present and an off-diagonal sample")
    ctx.exhaustive = ctx.tier == "thorough"
    ctx.extra["constants"] = par
    ctx.assumptions = ["small-scope: NC=3, short sequences; leading shape X=(2,) for the stacked part"]
    return ctx.finish()


def replay(ctx: core.Ctx, body):
    core.import_repo()
    smp = [list(s) for s in body["case"]]
    ids = iter(range(1, 10**9))
    evs = [event_for_case(smp, 0, 3, ids, v) for v in range(4)]
    ctx.judge("Trace_C05", evs, cases=[smp])
    return ctx.finish()
