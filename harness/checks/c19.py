"""C19 - FraudScores is a faithful, validated genuine/fraud view of Scores.

Leg A: TLC on MC_C19 (construction over a value domain that straddles [0,1];
ValueError iff some value is outside; refinement mapping to a Scores object).
Leg B: every argument tuple is given to FraudScores (constructor or from_labels)
under several float realisations of "just outside"; every query is run on the
FraudScores object and on the Scores object the mapping prescribes.
Leg C: TLC validates (Trace_C19).
"""
from __future__ import annotations

import json
import warnings

import numpy as np

from .. import core, gamma

PROP = "C19"
MC_CFG = """SPECIFICATION Spec
CONSTANTS
  Mid = {Mid}
  MaxG = {MaxG}
  MaxF = {MaxF}
INVARIANT InvRaisesIffOutside
INVARIANT InvView
INVARIANT InvLabels
POSTCONDITION EmitCases
CHECK_DEADLOCK FALSE
"""
TIERS = {"quick": dict(Mid=2, MaxG=2, MaxF=2), "thorough": dict(Mid=3, MaxG=3, MaxF=2)}
METRICS = ["tpr", "fnr", "tnr", "fpr", "topr", "tonr"]


def realise(v, mid, flavour):
    """abstract value -> float; several realisations of 'just outside [0,1]'"""
    if v == -1:
        return [-0.1, float(np.nextafter(0.0, -1.0)), -1e-20, -3.0][flavour % 4]
    if v == 0:
        return 0.0
    if v == mid + 1:
        return 1.0
    if v == mid + 2:
        return [1.1, float(np.nextafter(1.0, 2.0)), 1.0 + 1e-12, 7.0][flavour % 4]
    return v / (mid + 1.0)


def rats(a):
    return [gamma.proj_rat(x, 1000) for x in np.asarray(a, dtype=float).reshape(-1)]


def queries(F, S, t2s, ths, full=True, boot=True):
    """the same queries on both objects, projected; plus bitwise identity"""
    out = {"t2": t2s, "exc_f": "", "exc_s": "", "cm_f": [], "cm_s": [], "rates_f": {}, "rates_s": {},
           "thr_f": {}, "thr_s": {}, "eer_f": [0, 0], "eer_s": [0, 0], "auc_f": [0, 0], "auc_s": [0, 0],
           "bitwise_identical": True}
    ident = True
    for tag, o in (("f", F), ("s", S)):
        try:
            th = np.array(ths)
            m = np.asarray(o.cm(th).matrix)
            out["cm_" + tag] = [[int(x[0, 0]), int(x[0, 1]), int(x[1, 0]), int(x[1, 1])] for x in m]
            for name in METRICS:
                out["rates_" + tag][name] = rats(getattr(o, name)(th))
            for name in METRICS:
                try:
                    out["thr_" + tag][name] = rats(getattr(o, "threshold_at_" + name)(np.array([-0.5, 0, 0.25, 0.5, 2 / 3, 1, 1.5])))
                except ValueError:
                    out["thr_" + tag][name] = [[-7, 1]]
            if full and len(o.pos) and len(o.neg):
                t, e = o.eer()
                out["eer_" + tag] = [int(round(float(t) * 1e6)), int(round(float(e) * 1e6))]
                out["auc_" + tag] = gamma.proj_rat(o.auc(), 5000, ulps=64)
        except Exception as ex:  # noqa
            out["exc_" + tag] = f"{type(ex).__name__}"
    try:
        th = np.array(ths)
        ident = ident and np.array_equal(F.cm(th).matrix, S.cm(th).matrix)
        for name in METRICS:
            ident = ident and np.array_equal(getattr(F, name)(th), getattr(S, name)(th), equal_nan=True)
            try:
                tg = np.array([-0.5, 0.0, 0.1, 0.25, 0.5, 2 / 3, 0.9, 1.0, 1.5])
                a = getattr(F, "threshold_at_" + name)(tg)
                b = getattr(S, "threshold_at_" + name)(tg)
                for meth in ("lower", "higher"):
                    ident = ident and np.array_equal(getattr(F, "threshold_at_" + name)(tg, method=meth),
                                                     getattr(S, "threshold_at_" + name)(tg, method=meth))
                ident = ident and np.array_equal(a, b)
            except ValueError:
                pass
        if full and len(F.pos) and len(F.neg):
            ident = ident and F.eer() == S.eer() and F.auc() == S.auc() and F.auc(0.2, 0.7) == S.auc(0.2, 0.7)
        ident = ident and F == S
        # bootstrap queries: a custom sampler's object is returned as it is (whatever its configuration),
        # the built-in samplers give equal samples for the same seed
        from score_analysis import BootstrapConfig, Scores as _S
        other = _S([0.25, 0.5], [0.75], score_class="neg" if F.score_class.value == "pos" else "pos", equal_class="neg")
        cfgc = BootstrapConfig(sampling_method=lambda s_: other)
        ident = ident and F.bootstrap_sample(cfgc) is other and S.bootstrap_sample(cfgc) is other
        if full and boot and len(F.pos) and len(F.neg):
            for sm in ("replacement", "single_pass", "dynamic"):
                cfgb = BootstrapConfig(sampling_method=sm, nb_samples=3, bootstrap_method="quantile")
                np.random.seed(5)
                a_ = F.bootstrap_sample(cfgb)
                np.random.seed(5)
                b_ = S.bootstrap_sample(cfgb)
                ident = ident and _S.__eq__(a_, b_)
            np.random.seed(6)
            ca = np.asarray(F.bootstrap_ci("fnr", config=cfgc, threshold=0.5))
            cb = np.asarray(S.bootstrap_ci("fnr", config=cfgc, threshold=0.5))
            ident = ident and np.array_equal(ca, cb, equal_nan=True)
    except Exception:  # noqa
        ident = False
    out["bitwise_identical"] = bool(ident)
    return out


EMPTY_Q = {"t2": [], "exc_f": "", "exc_s": "", "cm_f": [], "cm_s": [], "rates_f": {}, "rates_s": {}, "thr_f": {},
           "thr_s": {}, "eer_f": [0, 0], "eer_s": [0, 0], "auc_f": [0, 0], "auc_s": [0, 0], "bitwise_identical": True}


def event(a, cid, mid, ids, flavour, full=True, dtype=None):
    from score_analysis import Scores
    from score_analysis.applications import FraudScores
    e = {"id": next(ids), "cid": cid, "op": "FraudNew", "exc": "", "args": a, "flavour": flavour,
         "post": {"pos": [], "neg": [], "ep": 0, "en": 0, "sc": "pos", "ec": "pos"},
         "genuines": [], "frauds": [], "queries": dict(EMPTY_Q)}
    g = np.array([realise(v, mid, flavour) for v in a["g"]], dtype=float)
    f = np.array([realise(v, mid, flavour + 1) for v in a["f"]], dtype=float)
    if dtype is not None:                 # hard 0/1 decisions stored compactly (uint8 / bool / int)
        g, f = g.astype(dtype), f.astype(dtype)
        e["dtype"] = np.dtype(dtype).name
    inv = {realise(v, mid, 0): v for v in range(0, mid + 2)}
    back = lambda arr: [inv.get(float(x), -999) for x in np.asarray(arr)]  # noqa
    with warnings.catch_warnings():
        warnings.simplefilter("ignore")
        try:
            if cid % 2:
                labels = np.array(["G"] * len(g) + ["F"] * len(f))
                F = FraudScores.from_labels(labels, np.concatenate([g, f]), genuine_label="G",
                                            nb_easy_genuines=a["eg"], nb_easy_frauds=a["ef"], score_class=a["sc"])
            else:
                F = FraudScores(genuines=g, frauds=f, nb_easy_genuines=a["eg"], nb_easy_frauds=a["ef"],
                                score_class=a["sc"])
        except ValueError:
            e["exc"] = "ValueError"
            return e
        except Exception as ex:  # noqa
            e["exc"] = type(ex).__name__
            return e
        e["post"] = {"pos": back(F.pos), "neg": back(F.neg), "ep": int(F.nb_easy_pos), "en": int(F.nb_easy_neg),
                     "sc": F.score_class.value, "ec": F.equal_class.value}
        e["genuines"], e["frauds"] = back(F.genuines), back(F.frauds)
        S = Scores(pos=g, neg=f, nb_easy_pos=a["eg"], nb_easy_neg=a["ef"],
                   score_class="pos" if a["sc"] == "genuine" else "neg", equal_class="pos")
        t2s, ths = [], []
        for v in range(0, mid + 2):
            x = realise(v, mid, 0)
            t2s += [2 * v - 1, 2 * v, 2 * v + 1]
            ths += [float(np.nextafter(x, -np.inf)), x, float(np.nextafter(x, np.inf))]
        e["queries"] = queries(F, S, t2s, ths, full=full, boot=cid % 4 == 0)
        # history: the genuines / frauds setters re-bind the score arrays; every query still equals Scores
        try:
            if len(g) and len(f):
                g2, f2 = np.sort(np.append(g[1:], g[-1])), np.sort(np.append(f[1:], f[0]))
                if g.dtype.kind != "f":
                    # the object was built from compact 0/1 scores; the setters now get genuine float scores
                    g2 = np.sort(np.array([0.25, 0.5, 0.75, 1.0][: max(1, len(g) % 5)]))
                    f2 = np.sort(np.array([0.0, 0.125, 0.5][: max(1, len(f) % 4)]))
                F.genuines, F.frauds = g2, f2
                S.pos, S.neg = np.array(g2, copy=True), np.array(f2, copy=True)
                q2 = queries(F, S, t2s, ths, full=False)
                same = all(q2[k + "_f"] == q2[k + "_s"] for k in ("exc", "cm", "rates", "thr")) and q2["bitwise_identical"]
                e["queries"]["bitwise_identical"] = bool(e["queries"]["bitwise_identical"] and same
                                                         and np.array_equal(F.genuines, F.pos) and np.array_equal(F.frauds, F.neg)
                                                         and np.array_equal(np.asarray(F.pos, dtype=float), np.asarray(g2, dtype=float)))
        except Exception:  # noqa
            e["queries"]["bitwise_identical"] = False
    return e


def run(ctx: core.Ctx):
    core.import_repo()
    par = TIERS[ctx.tier]
    cases_file = ctx.work / "cases.json"
    ctx.model("MC_C19", MC_CFG.format(**par), env={"CASES_FILE": cases_file})
    data = json.loads(cases_file.read_text())
    mid, cases = data["mid"], data["cases"]
    ids = iter(range(1, 10**9))
    evs = []
    for cid, a in enumerate(cases):
        a = {"g": list(a["g"]), "f": list(a["f"]), "eg": a["eg"], "ef": a["ef"], "sc": a["sc"]}
        nfl = 2 if ctx.tier == "thorough" else 1
        for k in range(nfl):
            evs.append(event(a, cid, mid, ids, (cid + k + ctx.seed) % 4,
                             full=ctx.tier == "thorough" or cid % 4 == 0))
        if any(v in (-1, 0, mid + 1, mid + 2) for v in a["g"] + a["f"]):
            ctx.nontrivial.add(json.dumps(a, sort_keys=True))
    # independent trace: 7 .. 40 scores per class on a grid of 1/64, handed over unsorted; 0/1-valued
    # scores also as uint8 / bool / int64 arrays
    BIGMID = 63
    rnd = np.random.RandomState(ctx.seed + 19)
    big_evs, big_cases = [], []
    for k in range(40 if ctx.tier == "quick" else 400):
        ng, nf = int(rnd.randint(7, 41)), int(rnd.randint(7, 41))
        sc = ["genuine", "fraud"][k % 2]
        dt = [None, None, np.uint8, bool, np.int64, None][k % 6]
        if dt is None:
            lo_g, lo_f = (20, 0) if sc == "genuine" else (0, 20)
            gv = [int(x) for x in rnd.randint(lo_g, lo_g + 45, ng)]
            fv = [int(x) for x in rnd.randint(lo_f, lo_f + 45, nf)]
            if k % 5 == 0:                # distinct smallest values (no ties at the bottom)
                gv = [int(x) for x in rnd.permutation(BIGMID + 2)[:ng]]
                fv = [int(x) for x in rnd.permutation(BIGMID + 2)[:nf]]
        else:
            gv = [int(x) * (BIGMID + 1) for x in rnd.randint(0, 2, ng)]
            fv = [int(x) * (BIGMID + 1) for x in rnd.randint(0, 2, nf)]
            gv[:2], fv[:2] = [BIGMID + 1, 0], [BIGMID + 1, 0]          # certainly not sorted
        a = {"g": gv, "f": fv, "eg": int(rnd.randint(0, 3)), "ef": int(rnd.randint(0, 3)), "sc": sc}
        big_cases.append(dict(a, kind="indep", dtype=None if dt is None else np.dtype(dt).name))
        big_evs.append(event(a, k, BIGMID, ids, 0, full=k % 4 == 0, dtype=dt))
    # NaN among the scores must not hide an out-of-range score
    nan_evs = []
    from score_analysis.applications import FraudScores as _F
    NANV = -99
    for k in range(60 if ctx.tier == "quick" else 600):
        dom = [NANV, -1, 0, 1, mid, mid + 1, mid + 2]
        gv = [dom[int(x)] for x in rnd.randint(0, len(dom), int(rnd.randint(0, 4)))]
        fv = [dom[int(x)] for x in rnd.randint(0, len(dom), int(rnd.randint(0, 4)))]
        if k % 3 == 0:
            (gv if k % 2 else fv).append(NANV)
        e = {"id": next(ids), "cid": 0, "op": "fraud_nan", "exc": "", "g": gv, "f": fv}
        conc = lambda v, fl: float("nan") if v == NANV else realise(v, mid, fl)  # noqa
        with warnings.catch_warnings():
            warnings.simplefilter("ignore")
            try:
                if k % 2:
                    _F(genuines=np.array([conc(v, k) for v in gv], dtype=float), frauds=[conc(v, k + 1) for v in fv])
                else:
                    lab = np.array(["G"] * len(gv) + ["F"] * len(fv))
                    _F.from_labels(lab, np.array([conc(v, k) for v in gv + fv], dtype=float), genuine_label="G")
            except ValueError:
                e["exc"] = "ValueError"
            except Exception as ex:  # noqa
                e["exc"] = type(ex).__name__
        nan_evs.append(e)
    evs += nan_evs
    # history: construct, then the CALLER writes into the very arrays it handed over, then constructs
    # again from the same array objects - every construction validates the scores it is given NOW
    hist_evs = []
    okdom, anydom = [0, 1, mid, mid + 1], [-1, 0, 1, mid, mid + 1, mid + 2]
    for k in range(40 if ctx.tier == "quick" else 400):
        ng, nf = int(rnd.randint(1, 4)), int(rnd.randint(1, 4))
        plan = [([okdom[int(x)] for x in rnd.randint(0, 4, ng)], [okdom[int(x)] for x in rnd.randint(0, 4, nf)])]
        plan.append(([anydom[int(x)] for x in rnd.randint(0, 6, ng)], [anydom[int(x)] for x in rnd.randint(0, 6, nf)]))
        if k % 2:
            (plan[1][0] if k % 4 == 1 else plan[1][1])[-1] = [-1, mid + 2][k % 3 == 0]     # certainly outside
        plan.append(([okdom[int(x)] for x in rnd.randint(0, 4, ng)], [okdom[int(x)] for x in rnd.randint(0, 4, nf)]))
        if k % 5 == 0:
            plan = plan[1:] + plan[:1]                      # refused first, accepted afterwards
        ga, fa = np.zeros(ng), np.zeros(nf)
        for step, (gv, fv) in enumerate(plan):
            ga[:] = [realise(v, mid, k) for v in gv]        # in place: the same array objects every time
            fa[:] = [realise(v, mid, k + 1) for v in fv]
            e = {"id": next(ids), "cid": 0, "op": "fraud_nan", "exc": "", "g": gv, "f": fv, "history_step": step}
            with warnings.catch_warnings():
                warnings.simplefilter("ignore")
                try:
                    if k % 3 == 2:
                        lab = np.array(["G"] * ng + ["F"] * nf)
                        _F.from_labels(lab, np.concatenate([ga, fa]), genuine_label="G")
                    else:
                        _F(genuines=ga, frauds=fa, score_class=["genuine", "fraud"][k % 2])
                except ValueError:
                    e["exc"] = "ValueError"
                except Exception as ex:  # noqa
                    e["exc"] = type(ex).__name__
            hist_evs.append(e)
    evs += hist_evs
    # from_labels: a genuine_label that no label equals (also of another type) makes every sample a fraud
    mm_evs = []
    for k, (labels_, gl) in enumerate([(np.array([1, 0, 1, 2]), None), (np.array([1, 0, 1, 2]), 1.5), (np.array([1, 0, 1, 2]), "1"),
                                       (np.array([True, False, True, True]), 2), (np.array(["g", "f", "g", "f"]), "genuine"),
                                       (np.array(["g", "f", "g", "f"]), 0), (np.array([1, 0, 1, 2]), 1), (np.array([1.0, 0.0, 1.0, 2.0]), 1),
                                       (np.array([True, False, True, True]), 1), (np.array(["g", "f", "g", "f"]), np.str_("g"))]):
        sc_ = np.array([0.25, 0.5, 0.75, 1.0])
        want = [int(i) for i in range(4) if bool(labels_[i] == gl) is True] if not isinstance(labels_[0] == gl, np.ndarray) else []
        e = {"id": next(ids), "cid": 0, "op": "from_labels_split", "exc": "", "k": k, "want_genuine": want,
             "genuine": [], "fraud": []}
        with warnings.catch_warnings():
            warnings.simplefilter("ignore")
            try:
                F_ = _F.from_labels(labels_, sc_, genuine_label=gl)
                back_ = {0.25: 0, 0.5: 1, 0.75: 2, 1.0: 3}
                e["genuine"] = sorted(back_[float(x)] for x in F_.genuines)
                e["fraud"] = sorted(back_[float(x)] for x in F_.frauds)
            except Exception as ex:  # noqa
                e["exc"] = f"{type(ex).__name__}: {ex}"[:120]
        mm_evs.append(e)
    evs += mm_evs
    from score_analysis.applications.doc_fraud import binary_to_doc_label, doc_to_binary_label
    lab = {"id": next(ids), "cid": 0, "op": "labels", "exc": "",
           "d2b": {d: doc_to_binary_label(d).value for d in ("genuine", "fraud")},
           "b2d": {b: binary_to_doc_label(b).value for b in ("pos", "neg")}, "roundtrip_ok": True}
    lab["roundtrip_ok"] = bool(all(binary_to_doc_label(doc_to_binary_label(d)).value == d for d in ("genuine", "fraud"))
                               and all(doc_to_binary_label(binary_to_doc_label(b)).value == b for b in ("pos", "neg")))
    evs.append(lab)
    ctx.sample(evs[len(evs) // 3])
    ctx.judge("Trace_C19", evs, cases=cases, batch=2500, consts_cfg=f"CONSTANTS\n  Mid = {mid}\n")
    ctx.judge("Trace_C19", big_evs, cases=big_cases, tag="big", batch=50, consts_cfg=f"CONSTANTS\n  Mid = {BIGMID}\n")
    ctx.rule = ("every (genuines, frauds, easy counts, score_class) tuple over a value domain straddling "
                "[0,1] (empty classes included), constructor and from_labels, several float realisations of "
                "'just outside'; non-trivial = some value on or beyond a boundary of [0,1]")
    ctx.exhaustive = True
    ctx.extra["constants"] = par
    ctx.assumptions = ["small-scope: at most MaxG/MaxF scores per class"]
    return ctx.finish()


def replay(ctx: core.Ctx, body):
    core.import_repo()
    a = body["case"]
    a = {"g": list(a["g"]), "f": list(a["f"]), "eg": a["eg"], "ef": a["ef"], "sc": a["sc"]}
    ids = iter(range(1, 10**9))
    mid = max([2] + [v - 1 for v in a["g"] + a["f"] if v > 0])
    evs = [event(a, k, TIERS["quick"]["Mid"], ids, k) for k in range(4)]
    ctx.judge("Trace_C19", evs, cases=[a] * 4, consts_cfg=f"CONSTANTS\n  Mid = {TIERS['quick']['Mid']}\n")
    return ctx.finish()
