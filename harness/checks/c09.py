"""C09 - virtual easy samples behave exactly like materialised extreme scores.

Leg A: TLC on MC_C09 (environment action Materialise; same matrices inside the
innermost materialised samples, same linear thresholds within the scored range).
Leg B/C: each object of the model is built twice for real - once declaring
nb_easy_pos/nb_easy_neg, once with those samples present as actual scores - both
are probed and TLC checks the relation between the recorded probes (the
relations judge Trace_C08, clauses C09.*), including full and partial AUC.
"""
from __future__ import annotations

import json

from .. import core, gamma
from .. import scoresdrv as sd
from . import c08

PROP = "C09"
MC_CFG = """SPECIFICATION Spec
CONSTANTS
  K = {K}
  MaxP = {MaxP}
  MaxN = {MaxN}
  EasyPairs <- {Easy}
  Qs <- {Qs}
PROPERTY SameMatrices
PROPERTY SameThresholds
PROPERTY SamePopulations
POSTCONDITION EmitCases
CHECK_DEADLOCK FALSE
"""
TIERS = {
    "quick": dict(K=3, MaxP=3, MaxN=2, Easy="EasyQuick", Qs="QsQuick"),
    "thorough": dict(K=4, MaxP=3, MaxN=3, Easy="EasyThorough", Qs="QsThorough"),
}


def materialise(o):
    vals = list(o["pos"]) + list(o["neg"])
    lo, hi = min(vals), max(vals)
    high = o["sc"] == "pos"
    xp = [(hi + i) if high else (lo - i) for i in range(1, o["ep"] + 1)]
    xn = [(lo - i) if high else (hi + i) for i in range(1, o["en"] + 1)]
    return {"pos": sorted(list(o["pos"]) + xp), "neg": sorted(list(o["neg"]) + xn),
            "ep": 0, "en": 0, "sc": o["sc"], "ec": o["ec"]}


def events_for_case(o, cid, g, K, qs, ids):
    evs = []
    ev = sd.make_ev(evs, ids, cid, g)
    s = sd.new_event(ev, o, g, h=1)
    if s is None:
        return evs
    c08.probe(ev, s, o, 1, K, g, qs)
    om = materialise(o)
    e = ev("Derive", kind="materialise", h=1, h2=2, post=dict(sd.EMPTY_POST))
    try:
        s2 = sd.build(om, g)
        e["post"] = sd.alpha_obj(s2, sd.inv_map(g))
        c08.probe(ev, s2, om, 2, K, g, qs)
    except Exception as ex:  # noqa
        e["exc"] = sd.exc_str(ex)
    # history: other easy-sample counts are assigned to the object that was just queried
    ep2, en2 = [(2, 0), (0, 3), (1, 2), (3, 1)][cid % 4]
    if (ep2, en2) == (o["ep"], o["en"]):
        en2 += 1
    o2 = dict(o, ep=ep2, en=en2)
    e = ev("SetEasy", h=1, ep=ep2, en=en2, post=dict(sd.EMPTY_POST))
    try:
        s.nb_easy_pos, s.nb_easy_neg = ep2, en2
        e["post"] = sd.alpha_obj(s, sd.inv_map(g))
        c08.probe(ev, s, o2, 1, K, g, qs)
        om2 = materialise(o2)
        e = ev("Derive", kind="materialise", h=1, h2=3, post=dict(sd.EMPTY_POST))
        s3 = sd.build(om2, g)
        e["post"] = sd.alpha_obj(s3, sd.inv_map(g))
        c08.probe(ev, s3, om2, 3, K, g, qs)
    except Exception as ex:  # noqa
        e["exc"] = sd.exc_str(ex)
    return evs


def big_pair_event(ids, cid, n, ep, en, sc, ec, seed, i32=False):
    """n scored samples per class (interleaved integers), ep / en easy samples: declared vs materialised"""
    import numpy as np
    from score_analysis import Scores
    rnd = np.random.RandomState(seed)
    e = {"id": next(ids), "cid": cid, "op": "big_pair", "exc": "", "conc": "big", "n": n, "ep": ep, "en": en,
         "lo": 0, "hi": int((2 * n - 1) * 1000), "thrA": {}, "thrB": {}, "cmA": [], "cmB": [], "aucA9": -1, "aucB9": -1}
    try:
        pos, neg = np.arange(n) * 2.0 + 1.0, np.arange(n) * 2.0
        if sc == "neg":
            pos, neg = neg, pos
        lo, hi = 0.0, 2.0 * n - 1.0
        high = sc == "pos"
        xp = (hi + 1 + np.arange(ep)) if high else (lo - 1 - np.arange(ep))
        xn = (lo - 1 - np.arange(en)) if high else (hi + 1 + np.arange(en))
        # the declared counts as Python ints, or as int32 scalars (e.g. read from a table)
        a = Scores(pos, neg, nb_easy_pos=np.int32(ep) if i32 else ep, nb_easy_neg=np.int32(en) if i32 else en,
                   score_class=sc, equal_class=ec)
        b = Scores(np.concatenate([pos, xp]), np.concatenate([neg, xn]), score_class=sc, equal_class=ec)
        fx = lambda t: [int(round(max(-2e6, min(2e6, float(x))) * 1000)) for x in np.asarray(t)]  # noqa
        for m in sd.METRICS:
            pop = {"tpr": n + ep, "fnr": n + ep, "tnr": n + en, "fpr": n + en}.get(m, 2 * n + ep + en)
            ks = sorted(set(range(0, 30)) | {2 * pop - j for j in range(0, 30)}
                        | {2 * e_ + j for e_ in (ep, en, pop - ep, pop - en, ep + en) for j in range(-24, 25)}
                        | {int(x) for x in rnd.randint(0, 2 * pop, 12)})
            rf = np.array([k / (2.0 * pop) for k in ks if 0 <= k <= 2 * pop])
            e["thrA"][m] = fx(getattr(a, "threshold_at_" + m)(rf))
            e["thrB"][m] = fx(getattr(b, "threshold_at_" + m)(rf))
        if n <= 5000:
            import warnings
            with warnings.catch_warnings():
                warnings.simplefilter("ignore")
                e["aucA9"], e["aucB9"] = int(round(float(a.auc()) * 1e9)), int(round(float(b.auc()) * 1e9))
        th = np.concatenate([rnd.randint(0, 2 * n, 12) + rnd.choice([0.0, 0.5], 12), [0.0, 2.0 * n - 1.0]])
        for key, s in (("cmA", a), ("cmB", b)):
            e[key] = [[int(x[0, 0]), int(x[0, 1]), int(x[1, 0]), int(x[1, 1])] for x in s.cm(th).matrix]
    except Exception as ex:  # noqa
        e["exc"] = sd.exc_str(ex)
    return e


GAMMAS = [gamma.ident(), gamma.affine(2.5, -7.0), gamma.affine(0.1, 0.3), gamma.affine(3.0, 0.125)]


def run(ctx: core.Ctx):
    core.import_repo()
    par = TIERS[ctx.tier]
    cases_file = ctx.work / "cases.json"
    ctx.model("MC_C09", MC_CFG.format(**par), env={"CASES_FILE": cases_file})
    data = json.loads(cases_file.read_text())
    K, qs, cases = data["k"], data["qs"], data["cases"]
    ids = iter(range(1, 10**9))
    events = []
    for cid, o in enumerate(cases):
        gs = GAMMAS if ctx.tier == "thorough" and cid % 4 == 0 else [GAMMAS[(cid + ctx.seed) % len(GAMMAS)]]
        for g in gs:
            events += events_for_case(o, cid, g, K, qs, ids)
        if o["ep"] or o["en"]:
            ctx.nontrivial.add(json.dumps(o, sort_keys=True))
    for k, (n, ep, en) in enumerate([(400000, 400000, 150000), (300000, 7, 600000)] if ctx.tier == "quick" else
                                    [(400000, 400000, 150000), (300000, 7, 600000), (1000000, 1000000, 1000000),
                                     (700000, 0, 350000)]):
        events.append(big_pair_event(ids, len(cases), n, ep, en, ["pos", "neg"][k % 2], ["pos", "neg"][(k // 2 + 1) % 2],
                                     ctx.seed + k))
        cases.append({"kind": "big_pair", "n": n, "ep": ep, "en": en})
    # moderate scored classes, easy counts given as int32 scalars whose products exceed 2^31
    for k, (n, ep, en) in enumerate([(2000, 60000, 50000), (1500, 3, 70000)]):
        events.append(big_pair_event(ids, len(cases), n, ep, en, ["pos", "neg"][k % 2], "pos", ctx.seed + 50 + k, i32=True))
        cases.append({"kind": "big_pair", "n": n, "ep": ep, "en": en, "i32": True})
    for e in events[:2]:
        ctx.sample(e)
    ctx.judge("Trace_C08", events, cases=cases, batch=1500)
    ctx.failures = [f for f in ctx.failures if f[0].startswith("C09.") or f[0].startswith("C08.raised")]
    ctx.rule = ("every object of the bounded model with both classes non-empty, paired with its "
                "materialisation; non-trivial = declares at least one easy sample")
    ctx.exhaustive = True
    ctx.extra["constants"] = par
    ctx.assumptions = ["small-scope", "thresholds compared as rationals (1e-9), a sentinel and the "
                       "extreme score it sits one ulp outside are identified"]
    return ctx.finish()


def replay(ctx: core.Ctx, body):
    core.import_repo()
    o = body["case"]
    K = max([3] + [v + 1 for v in o["pos"] + o["neg"]])
    ids = iter(range(1, 10**9))
    events = []
    for g in GAMMAS:
        events += events_for_case(o, 0, g, K, [1, 2, 3], ids)
    ctx.judge("Trace_C08", events, cases=[o])
    ctx.failures = [f for f in ctx.failures if f[0].startswith("C09.") or f[0].startswith("C08.raised")]
    return ctx.finish()
