"""C18 - showbias reports per group the metric of exactly that group's rows.

Leg A: TLC on MC_C18 (frames growing row by row: groups partition the rows,
by_min puts the smallest row at 1 unless the divisor is 0, counts add up).
Leg B: showbias is called on every frame of the bounded model (group values with
and without the join character, one or two group columns, list or str
group_columns, several metrics, thresholds scalar/list, three normalisations,
bootstrap off / identity sampler / seeded built-in samplers x methods), and on
larger random frames.  Leg C: TLC validates (Trace_C18).
"""
from __future__ import annotations

import itertools
import json
import warnings

import numpy as np

from .. import core, gamma

PROP = "C18"
MC_CFG = """SPECIFICATION Spec
CONSTANTS
  G1 = {{"a", "a_b"}}
  G2 = {{"c", "b_c"}}
  Labels = {{0, 1}}
  Scores = {{0, 1}}
  MaxRows = {MaxRows}
  T2s = {{0, 1, 2}}
INVARIANT InvPartition
INVARIANT InvByMin
INVARIANT InvCountsAdd
CHECK_DEADLOCK FALSE
"""
TIERS = {"quick": dict(MaxRows=3, stride=5, nrand=120), "thorough": dict(MaxRows=4, stride=4, nrand=1500)}
G = gamma.affine(0.25, 0.125)          # abstract score v -> 0.125 + v/4
NANLIM = 1_500_000_000
METRICS = ["fnr", "fpr", "tpr", "tnr", "ppv", "npv", "fdr", "for_", "topr", "tonr", "accuracy", "error_rate",
           "tar", "frr", "far", "trr", "acceptance_rate", "rejection_rate", "fn", "tp", "pop", "p"]
V1 = [["a"], ["a", "b"]]          # "a", "a_b"
V2 = [["c"], ["b", "c"]]          # "c", "b_c"   (("a_b","c") and ("a","b_c") join to the same key)


def fx6(x):
    x = float(x)
    return NANLIM if x != x else int(round(max(-1.4e9, min(1.4e9, x * 1e6))))


def toks(s):
    return str(s).split("_")


def event(rows, ids, cid, variant, seed, big=False):
    """rows: [[g1 tokens, g2 tokens, label, score]]"""
    import pandas as pd
    from score_analysis import BootstrapConfig, showbias
    v = variant
    ncols = 1 + v % 2
    as_list = ncols == 2 or (v // 2) % 2 == 1
    metric = METRICS[(cid + v) % len(METRICS)]
    normalize = ["none", "by_overall", "by_min"][(v // 4 + cid) % 3]
    boot = ["none", "identity", "builtin", "identity", "scripted"][(v // 3 + cid) % 5]
    method = ["quantile", "bc", "bca"][(cid + v) % 3]
    sc = ["pos", "neg"][(cid + v // 2) % 2]
    ec = ["pos", "neg"][(cid // 2 + v) % 2]
    pos_label = [1, 1, 0][(cid + v) % 3]
    t2 = [[1], [0, 1, 2], [2, 3], [-1, 1, 4]][(cid + v) % 4]
    scalar_thr = len(t2) == 1 and cid % 2 == 0
    if big:
        metric, normalize, boot = ["fnr", "fpr", "tpr", "tnr"][(cid + v) % 4], "none", "builtin"
    e = {"id": next(ids), "cid": cid, "op": "showbias", "exc": "", "rows": rows, "ncols": ncols,
         "cols_as_list": as_list, "metric": metric, "t2": t2, "normalize": normalize, "boot": boot,
         "method": method, "sc": sc, "ec": ec, "pos_label": pos_label,
         "out": {"index": [], "columns_ok": True, "values": [], "lower": [], "upper": [], "ci_labels_same": True}}
    # score column dtype: float64, int64 (thresholds v or v + 1/2) or float32 (thresholds one float64
    # ulp off a float32 score, i.e. not representable in the column's dtype)
    sdtype = ["float64", "int64", "float32"][(cid + v // 2) % 3]
    e["sdtype"] = sdtype
    if big:
        e["big"] = True
    if sdtype == "int64":
        gg = gamma.ident()
        scores = np.array([int(r[3]) for r in rows], dtype=np.int64)
        ths = [gg.thr(t) for t in t2]
    elif sdtype == "float32":
        gg = gamma.Gamma("f32", lambda x: float(np.float32(0.1 * x + 0.3)), None)
        scores = np.array([gg(r[3]) for r in rows], dtype=np.float32)
        ths = [gg.thr(t, "lo" if (cid + t) % 2 else "hi") for t in t2]
    else:
        scores = np.array([float(G(r[3])) for r in rows])
        ths = [G.thr(t) for t in t2]
    df = pd.DataFrame({"g1": ["_".join(r[0]) for r in rows], "g2": ["_".join(r[1]) for r in rows],
                       "lab": [r[2] for r in rows], "score": scores})
    # label column: ints, booleans (pos_label then a Python / NumPy bool or the int 0/1) or strings
    lab_kind = (cid + v // 2) % 5
    e["label_kind"] = ["int", "bool", "np_bool", "bool_int_pos", "str"][lab_kind]
    pos_arg = pos_label
    if lab_kind in (1, 2, 3):
        df["lab"] = df["lab"].astype(bool)
        pos_arg = [None, bool(pos_label), np.bool_(pos_label), int(pos_label)][lab_kind]
    elif lab_kind == 4:
        df["lab"] = np.where(df["lab"] == 1, "yes", "no")
        pos_arg = "yes" if pos_label == 1 else "no"
    if (cid + v) % 2:
        df = df[["score", "g2", "lab", "g1"]]                  # column order of the frame differs from group_columns
    cols = (["g1", "g2"] if ncols == 2 else ["g1"]) if as_list else "g1"
    # the frame's row labels: default 0..n-1, the same rows in another order (labels travel with the
    # rows), or arbitrary labels
    idx_mode = (cid + v // 3) % 3
    e["row_index"] = ["default", "permuted", "strings"][idx_mode]
    if idx_mode == 1 and len(df) > 1:
        df = df.iloc[np.random.RandomState(cid + v).permutation(len(df))[::-1]]
    elif idx_mode == 2:
        df.index = [f"row{(7 * i + 3) % (len(df) + 2)}" for i in range(len(df))][::-1]
    kw = {}
    stored = []                    # the samples a scripted (non-identity, deterministic) sampler hands out

    def scripted_sampler(src_):
        from score_analysis import BootstrapConfig as _BC
        if not stored:
            stored.append(src_)
            st_ = np.random.get_state()
            np.random.seed(1000 + cid)
            pool = [src_.bootstrap_sample(_BC(sampling_method="replacement", stratified_sampling="by_group"))
                    for _ in range(5)]
            np.random.set_state(st_)
            stored.extend(pool)
            stored.append(0)
        i = stored[-1]
        stored[-1] = i + 1
        return stored[1 + i % 5]
    if big:
        kw["bootstrap_ci"] = True                            # default sampling method ('dynamic')
        kw["bootstrap_config"] = BootstrapConfig(nb_samples=40, bootstrap_method=method,
                                                 stratified_sampling=[None, "by_label"][cid % 2])
    elif boot != "none":
        kw["bootstrap_ci"] = True
        kw["bootstrap_config"] = BootstrapConfig(
            nb_samples=5, bootstrap_method=method,
            sampling_method=(lambda s: s) if boot == "identity" else scripted_sampler if boot == "scripted" else
            ["replacement", "dynamic"][cid % 2],
            stratified_sampling=None if boot == "identity" else [None, "by_group"][cid % 2])
    # some callers run NumPy with floating-point errors raised instead of warned about (bootstrap off:
    # the bootstrap machinery divides by zero on purpose and relies on the warning mode)
    strict = boot == "none" and (cid + v) % 3 == 0
    e["strict_errstate"] = strict
    with warnings.catch_warnings(), np.errstate(**({"all": "raise"} if strict else {})):
        warnings.simplefilter("ignore")
        try:
            np.random.seed(seed + cid)
            r = showbias(df, cols, "lab", "score", metric, normalize=None if normalize == "none" else normalize,
                         pos_label=pos_arg, score_class=sc, equal_class=ec,
                         threshold=ths[0] if scalar_thr else ths, **kw)
            vals = r.values
            idx = vals.index
            e["out"]["index"] = [[toks(x) for x in (lab if isinstance(lab, tuple) else (lab,))] for lab in idx]
            e["out"]["columns_ok"] = bool(len(vals.columns) == len(ths) and
                                          all(float(a) == float(b) for a, b in zip(vals.columns, ths)))
            e["out"]["values"] = [[gamma.proj_rat(x, 5000, ulps=64) for x in row] for row in np.asarray(vals.values, dtype=float)]
            # the markdown rendering (beyond the listed property: EXT clause): one table row per group,
            # the first number of every cell is the reported value to three decimals
            try:
                md = r.to_markdown()
                body = [ln for ln in md.splitlines()[2:] if ln.strip().startswith("|")]
                cells = []
                for ln in body:
                    allp = [c_.strip() for c_ in ln.strip().strip("|").split("|")]
                    if not allp[0]:
                        continue                       # continuation line of a multi-line (interval) cell
                    parts = allp[-len(ths):]
                    row = []
                    for c_ in parts:
                        tok = c_.split()[0] if c_.split() else "nan"
                        try:
                            x_ = float(tok)
                        except ValueError:
                            x_ = float("nan")
                        row.append(NANLIM if x_ != x_ else int(round(max(-1e6, min(1e6, x_)) * 1000)))
                    cells.append(row)
                e["out"]["md"] = cells
            except ImportError:
                pass
            if boot != "none":
                lo, up = r.lower, r.upper
                e["out"]["ci_labels_same"] = bool(lo is not None and up is not None and
                                                  list(lo.index) == list(idx) and list(up.index) == list(idx) and
                                                  list(lo.columns) == list(vals.columns) and
                                                  list(up.columns) == list(vals.columns))
                if lo is not None and up is not None:
                    e["out"]["lower"] = [[fx6(x) for x in row] for row in np.asarray(lo.values, dtype=float)]
                    e["out"]["upper"] = [[fx6(x) for x in row] for row in np.asarray(up.values, dtype=float)]
                if boot == "scripted" and normalize != "by_min" and len(stored) == 7:
                    # the interval formula (utils.bootstrap_ci, decided by C13) applied to the replicates of the
                    # SAME normalised quantity: the metric of every handed-out sample, group by group, divided by
                    # the whole-dataset metric of the source (A) or of the sample itself (B)
                    from score_analysis.utils import bootstrap_ci as _ci
                    src_, pool = stored[0], stored[1:6]
                    tharr = np.asarray(ths, dtype=float)
                    gm = lambda o_: np.asarray(getattr(o_.group_cm(tharr), metric)(), dtype=float)   # noqa
                    om = lambda o_: np.asarray(getattr(o_.cm(tharr), metric)(), dtype=float)         # noqa
                    reps = np.stack([gm(p_) for p_ in pool])
                    est = np.asarray(vals.values, dtype=float)
                    exp = {}
                    for tag, divs in (("A", [om(src_)] * 5), ("B", [om(p_) for p_ in pool])):
                        rr = reps.copy()
                        if normalize == "by_overall":
                            for k_ in range(5):
                                d_ = np.where(divs[k_] != 0, divs[k_], 1.0)
                                rr[k_] = np.where(divs[k_] != 0, rr[k_] / d_, rr[k_])
                        ci_ = np.asarray(_ci(theta=rr, theta_hat=est, alpha=0.05, method=method))
                        exp[tag] = {"lower": [[fx6(x) for x in row] for row in ci_[..., 0]],
                                    "upper": [[fx6(x) for x in row] for row in ci_[..., 1]]}
                    e["out"]["expected"] = exp
        except Exception as ex:  # noqa
            e["exc"] = f"{type(ex).__name__}: {ex}"[:200]
    return e


def model_frames(maxrows):
    rows = [[a, b, lab, s] for a in V1 for b in V2 for lab in (0, 1) for s in (0, 1)]
    out = []
    for n in range(1, maxrows + 1):
        for fr in itertools.product(rows, repeat=n):
            out.append([list(r) for r in fr])
    return out


def run(ctx: core.Ctx):
    core.import_repo()
    par = TIERS[ctx.tier]
    tables = core.VERIF / "gen" / "tables.json"
    ctx.model("MC_C18", MC_CFG.format(**par))
    frames = model_frames(par["MaxRows"])
    ids = iter(range(1, 10**9))
    evs, cases = [], []
    for k, fr in enumerate(frames):
        if (k + ctx.seed) % par["stride"]:
            continue
        cid = len(cases)
        cases.append(fr)
        for v in range(3 if ctx.tier == "quick" else 4):
            evs.append(event(fr, ids, cid, (cid + 5 * v) % 48, ctx.seed))
        if len({(tuple(r[0]), tuple(r[1])) for r in fr}) > 1:
            ctx.nontrivial.add(json.dumps(fr))
    # larger random frames (values without the separator dominate, so that the property
    # clauses - not only the known findings - are exercised on realistic data)
    rnd = np.random.RandomState(ctx.seed + 23)
    for k in range(par["nrand"]):
        n = int(rnd.randint(4, 11))
        if k % 3 == 0:
            # values that are prefixes of each other, continued by characters sorting before '_'
            g1 = [[["EU"], ["EUR"], ["US"]], [["A"], ["A1"], ["B"]], [["18"], ["18-25"], ["18.5"]]][(k // 3) % 3]
            g2 = [["f"], ["m"]]
        else:
            g1 = [["x"], ["y"], ["z"], ["a", "b"]][: 3 + (k % 7 == 0)]
            g2 = [["m"], ["f"], ["b", "c"]][: 2 + (k % 11 == 0)]
        fr = [[g1[int(rnd.randint(len(g1)))], g2[int(rnd.randint(len(g2)))], int(rnd.randint(0, 2)),
               int(rnd.randint(0, 5))] for _ in range(n)]
        cid = len(cases)
        cases.append(fr)
        for v in range(2):
            evs.append(event(fr, ids, cid, int(rnd.randint(48)), ctx.seed))
        ctx.nontrivial.add(json.dumps(fr))
    # large frames: >= 100 rows of either label, default sampling method
    for k in range(3 if ctx.tier == "quick" else 12):
        n = 260 + 20 * k
        fr = [[[["x"], ["y"]][int(rnd.randint(2))], [["m"], ["f"]][int(rnd.randint(2))], int(i % 2),
               int(min(4, max(0, rnd.randint(0, 4) + (i % 2))))] for i in range(n)]
        cid = len(cases)
        cases.append(fr)
        evs.append(event(fr, ids, cid, int(rnd.randint(48)), ctx.seed, big=True))
    ctx.sample(evs[len(evs) // 2])
    ctx.judge("Trace_C18", evs, cases=cases, batch=1200, env_extra={"TABLES_FILE": str(tables)})
    ctx.rule = ("frames of the bounded model (group values with/without '_', 1-2 group columns) and random "
                "frames of 4-10 rows x metric x thresholds x normalisation x bootstrap mode (rotating); "
                "non-trivial = at least two groups")
    ctx.exhaustive = ctx.tier == "thorough"
    ctx.extra["constants"] = par
    ctx.assumptions = ["entries projected to rationals with denominator <= 5000",
                       "normalisation clauses are evaluated where every group metric and the overall metric "
                       "are numbers (the property does not say what a NaN divisor means)"]
    return ctx.finish()


def replay(ctx: core.Ctx, body):
    core.import_repo()
    tables = core.VERIF / "gen" / "tables.json"
    fr = body["case"]
    ids = iter(range(1, 10**9))
    evs = [event(fr, ids, 0, v, ctx.seed) for v in range(48)]
    ctx.judge("Trace_C18", evs, cases=[fr], env_extra={"TABLES_FILE": str(tables)})
    return ctx.finish()
