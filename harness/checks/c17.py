"""C17 - general threshold search returns true solutions of the interpolated metric.

Leg A: TLC on MC_C17 (every small sampled curve x every target on a half-integer
grid: returned points solve the equation, are strictly increasing and inside the
range; the closest-point fallback is minimal).
Leg B: utils.invert_pl_function on every curve TLC enumerated (int/float dtype,
scalar and array targets); Scores.threshold_at_metric with points None / int /
array, metric by name and callable.
Leg C: TLC validates the recorded solutions (Trace_C17).
"""
from __future__ import annotations

import json
from fractions import Fraction

import numpy as np

from .. import core, gamma
from .. import scoresdrv as sd

PROP = "C17"
MC_CFG = """SPECIFICATION Spec
CONSTANTS
  MaxLen = {MaxLen}
  XMax = {XMax}
  YMax = {YMax}
INVARIANT InvSolutions
POSTCONDITION EmitCases
CHECK_DEADLOCK FALSE
"""
TIERS = {"quick": dict(MaxLen=4, XMax=3, YMax=2), "thorough": dict(MaxLen=5, XMax=4, YMax=3)}


def rat(x, den=5000):
    x = float(x)
    if x != x or np.isinf(x):
        return [0, 0]
    fr = Fraction(x).limit_denominator(den)
    return [fr.numerator, fr.denominator] if abs(float(fr) - x) <= 1e-9 * (1 + abs(x)) else [0, 0]


def rec_solutions(res, n_targets, scalar):
    """-> (out, container_ok): a scalar target must give one bare array, an array
    target a list with one array per target."""
    if scalar:
        ok = isinstance(res, np.ndarray)
        return [[rat(v) for v in np.asarray(res, dtype=float).reshape(-1)]], bool(ok)
    ok = isinstance(res, list) and len(res) == n_targets and all(isinstance(z, np.ndarray) for z in res)
    if not isinstance(res, (list, tuple)):
        return [], False
    return [[rat(v) for v in np.asarray(z, dtype=float).reshape(-1)] for z in res], bool(ok)


def invert_event(ids, cid, c, targets, variant):
    from score_analysis.utils import invert_pl_function
    x, y = list(c["x"]), list(c["y"])
    e = {"id": next(ids), "cid": cid, "op": "invert", "exc": "", "x": [[v, 1] for v in x],
         "y": [[v, 1] for v in y], "t": [], "out": [], "container_ok": True, "variant": variant}
    try:
        dt = float if variant % 2 else int
        xa, ya = np.array(x, dtype=dt), np.array(y, dtype=dt)
        ysc, back = 1.0, (lambda z: z)
        if variant == 4:
            # sample points stored as int8 and further apart than the dtype's positive range
            xa = (50 * np.array(x, dtype=int) - 100).astype(np.int8)
            back = lambda z: (np.asarray(z, dtype=float) + 100.0) / 50.0  # noqa
        elif variant == 6 and len(x) >= 2 and x[-1] > x[0]:
            # sample points spread over the whole finite range: the end points at -+2^1023, so that the
            # distance between two neighbouring points may exceed the largest double
            mid, half = (x[0] + x[-1]) / 2.0, (x[-1] - x[0]) / 2.0
            xa = (np.array(x, dtype=float) - mid) / half * 2.0 ** 1023
            back = lambda z, mid=mid, half=half: np.asarray(z, dtype=float) / 2.0 ** 1023 * half + mid  # noqa
        elif variant == 5:
            # metric values (and targets) of magnitude 1e-200: their squares underflow
            ysc = 1e-200
            ya = np.array(y, dtype=float) * ysc
        if variant // 2 % 2 == 0:
            ts = targets
            e["t"] = [list(t) for t in ts]
            res = invert_pl_function(xa, ya, np.array([t[0] / t[1] for t in ts]) * ysc)
            if isinstance(res, list):
                res = [back(z) for z in res]
            e["out"], e["container_ok"] = rec_solutions(res, len(ts), False)
        else:
            t = targets[(cid + variant) % len(targets)]
            e["t"] = [list(t)]
            # a scalar target: a Python float or a 0-d array
            res = invert_pl_function(xa, ya, t[0] / t[1] * ysc if cid % 2 else np.asarray(t[0] / t[1] * ysc))
            ok_ = isinstance(res, np.ndarray)
            res = back(res) if ok_ else res
            e["out"], e["container_ok"] = rec_solutions(res, 1, True)
            e["container_ok"] = bool(e["container_ok"] and ok_)
    except Exception as ex:  # noqa
        e["exc"] = f"{type(ex).__name__}: {ex}"[:200]
    return e


def tam_events(o, cid, g, ids, rnd):
    """threshold_at_metric on a real Scores object"""
    evs = []
    ev = sd.make_ev(evs, ids, cid, g)
    s = sd.new_event(ev, o, g, h=1)
    if s is None:
        return evs
    names = ["tpr", "fnr", "topr", "tonr", "fpr", "tnr", "abs_tpr_half"]
    for j, mode in enumerate(["all", "k", "points"]):
        m = names[(cid + j) % len(names)]
        if m in ("tpr", "fnr", "abs_tpr_half") and not o["pos"] or m in ("fpr", "tnr") and not o["neg"]:
            m = "topr"
        metric = (lambda sc, th: np.abs(sc.tpr(th) - 0.5)) if m == "abs_tpr_half" else m
        ts = [[1, 2], [0, 1], [1, 3], [1, 1], [3, 2]]
        scalar = (cid + j) % 3 == 0
        if scalar:
            ts = [ts[(cid + j) % 5]]
        e = ev("threshold_at_metric", h=1, metric=m, mode=mode, k=0, pts=[], t=ts, out=[], container_ok=True)
        try:
            tgt = ts[0][0] / ts[0][1] if scalar else np.array([t[0] / t[1] for t in ts])
            if scalar and (cid + j) % 2:
                tgt = np.asarray(tgt)                 # a scalar target given as a 0-d array
            if mode == "all":
                res = s.threshold_at_metric(tgt, metric)
            elif mode == "k":
                e["k"] = int(2 + (cid + j) % 4)
                res = s.threshold_at_metric(tgt, metric, e["k"])
            else:
                vals = sorted(set(o["pos"]) | set(o["neg"])) or [0]
                pts = sorted({Fraction(int(rnd.randint(2 * vals[0] - 1, 2 * vals[-1] + 2)), 2) for _ in range(4)})
                if len(pts) < 2:
                    pts = [Fraction(vals[0]), Fraction(vals[0] + 1)]
                e["pts"] = [[p.numerator, p.denominator] for p in pts]
                # abstract half-integer point -> float between the neighbouring score images
                fl = [float(g(p.numerator // p.denominator)) if p.denominator == 1 else
                      (float(g((p.numerator - 1) // 2)) + float(g((p.numerator + 1) // 2))) / 2 for p in pts]
                res = s.threshold_at_metric(tgt, metric, np.array(fl))
            proj = lambda v: rat(g.inv(float(v)))  # noqa
            if scalar:
                e["container_ok"] = bool(isinstance(res, np.ndarray))
                e["out"] = [[proj(v) for v in np.asarray(res, dtype=float).reshape(-1)]]
            else:
                e["container_ok"] = bool(isinstance(res, list) and len(res) == len(ts))
                e["out"] = [[proj(v) for v in np.asarray(z, dtype=float).reshape(-1)] for z in res]
        except ValueError as ex:
            e["exc"] = "ValueError"
        except Exception as ex:  # noqa
            e["exc"] = f"{type(ex).__name__}: {ex}"[:200]
    # history on the SAME object: a different throw-away callable per call (created in a loop and
    # garbage collected right after), evaluated at every score (points=None)
    bases = [b for b in ("fnr", "fpr", "tpr", "tnr", "tonr", "topr")
             if not (b in ("tpr", "fnr") and not o["pos"] or b in ("fpr", "tnr") and not o["neg"])]
    ts = [[1, 2], [0, 1], [1, 3], [1, 1], [3, 2], [5, 2]]
    for j, base in enumerate(bases[:4]):
        w = [2, 4][(cid + j) % 2]
        e = ev("threshold_at_metric", h=1, metric=f"x{w}_{base}", mode="all", k=0, pts=[], t=ts, out=[],
               container_ok=True)
        try:
            res = s.threshold_at_metric(np.array([t[0] / t[1] for t in ts]),
                                        lambda sc, th, w=w, base=base: w * getattr(sc, base)(th))
            e["container_ok"] = bool(isinstance(res, list) and len(res) == len(ts))
            e["out"] = [[rat(g.inv(float(v))) for v in np.asarray(z, dtype=float).reshape(-1)] for z in res]
        except ValueError:
            e["exc"] = "ValueError"
        except Exception as ex:  # noqa
            e["exc"] = f"{type(ex).__name__}: {ex}"[:200]
    return evs


def dense_events(ids, cid, tier):
    """invert_pl_function on a curve given by MANY samples (the piecewise-linear function with knots
    (0,3) (3,0) (6,3), resp. a zig-zag, sampled at 30001 .. 50001 points) with 600 .. 800 targets, so that
    len(x) * len(targets) exceeds 2^24.  The judge works on the knots: the sampled curve is the same
    function."""
    from score_analysis.utils import invert_pl_function
    evs = []
    for k, (npts, ntg) in enumerate([(30001, 800)] if tier == "quick" else [(30001, 800), (48001, 491), (60001, 300)]):
        kx, ky = ([0, 3, 6], [3, 0, 3]) if k % 2 == 0 else ([0, 2, 4, 6], [0, 3, 1, 2])
        tg = [[(5 * j + k) % 25, 8] for j in range(ntg)]
        e = {"id": next(ids), "cid": cid, "op": "invert", "exc": "", "x": [[v, 1] for v in kx],
             "y": [[v, 1] for v in ky], "t": tg, "out": [], "container_ok": True, "variant": 0, "dense": npts}
        try:
            xa = np.linspace(0.0, 6.0, npts)
            ya = np.interp(xa, kx, ky)
            res = invert_pl_function(xa, ya, np.array([t[0] / t[1] for t in tg]))
            e["out"], e["container_ok"] = rec_solutions(res, len(tg), False)
        except Exception as ex:  # noqa
            e["exc"] = f"{type(ex).__name__}: {ex}"[:200]
        evs.append(e)
    return evs


def run(ctx: core.Ctx):
    core.import_repo()
    par = TIERS[ctx.tier]
    cases_file = ctx.work / "cases.json"
    ctx.model("MC_C17", MC_CFG.format(**par), env={"CASES_FILE": cases_file})
    data = json.loads(cases_file.read_text())
    targets = sorted(data["targets"], key=lambda t: t[0] / t[1])
    curves = data["cases"]
    ids = iter(range(1, 10**9))
    events, cases = [], []
    for cid, c in enumerate(curves):
        cases.append({"kind": "curve", **c})
        nv = 4 if ctx.tier == "thorough" else 2
        for v in range(nv):
            events.append(invert_event(ids, cid, c, targets, (cid + v * (1 + cid % 2)) % 4 if nv == 2 else v))
        events.append(invert_event(ids, cid, c, targets, 4 + cid % 3))
        if len(set(c["y"])) > 1:
            ctx.nontrivial.add(json.dumps(c, sort_keys=True))
    # threshold_at_metric on Scores objects
    rnd = np.random.RandomState(ctx.seed + 9)
    import itertools
    fam = [gamma.ident(), gamma.affine(2.0, 1.0), gamma.ident_int()]
    objs = []
    for npos, nneg in itertools.product(range(0, 4), range(0, 3)):
        if npos + nneg == 0:
            continue                      # no sample at all: every metric is NaN (outside 'finite y')
        for pos in itertools.combinations_with_replacement(range(4), npos):
            for neg in itertools.combinations_with_replacement(range(4), nneg):
                objs.append({"pos": list(pos), "neg": list(neg), "ep": (len(objs) % 3), "en": (len(objs) % 2),
                             "sc": ["pos", "neg"][len(objs) % 2], "ec": ["pos", "neg"][(len(objs) // 2) % 2]})
    step = 1 if ctx.tier == "thorough" else 3
    base = len(cases)
    tam = []
    for k, o in enumerate(objs[::step]):
        cases.append({"kind": "scores", **o})
        tam += tam_events(o, base + k, fam[(k + ctx.seed) % len(fam)], ids, rnd)
    tam += dense_events(ids, len(cases), ctx.tier)
    cases.append({"kind": "big_dense"})
    ctx.sample(events[len(events) // 2])
    ctx.sample(tam[1] if len(tam) > 1 else tam[0])
    ctx.judge("Trace_C17", events + tam, cases=cases, batch=2500)
    ctx.rule = ("every sampled curve of the bounded model x the half-integer target grid (array and scalar "
                "targets, int/float dtype); threshold_at_metric on small Scores objects with points None / "
                "k / array, metric by name or callable; non-trivial = curve is not constant")
    ctx.exhaustive = True
    ctx.extra["constants"] = par
    ctx.extra["scores_objects"] = len(objs[::step])
    ctx.assumptions = ["small-scope; solutions projected to rationals with denominator <= 5000 (1e-9)"]
    return ctx.finish()


def replay(ctx: core.Ctx, body):
    core.import_repo()
    c = body["case"]
    ids = iter(range(1, 10**9))
    if c.get("kind") == "scores":
        o = {k: c[k] for k in ("pos", "neg", "ep", "en", "sc", "ec")}
        evs = []
        for k in range(6):
            evs += tam_events(o, k, gamma.ident(), ids, np.random.RandomState(k))
        ctx.judge("Trace_C17", evs, cases=[c] * 6)
    else:
        targets = [[k, 2] for k in range(-2, 9)]
        evs = [invert_event(ids, 0, c, targets, v) for v in range(4)]
        ctx.judge("Trace_C17", evs, cases=[c])
    return ctx.finish()
