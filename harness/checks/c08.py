"""C08 - symmetry under class swap, direction reversal and rescaling.

Leg A: TLC on MC_C08 (action properties relating an object and its swapped /
negated image: matrices, rates, linear thresholds).
Leg B/C: for every object of the model the driver builds the real object, its
swap(), the object built from negated scores with flipped score_class, and a
second affine concretisation; each is probed (matrices, rates, thresholds, EER,
AUC) and TLC checks the relations between the RECORDED probes (Trace_C08).
"""
from __future__ import annotations

import json

import numpy as np

from .. import core, gamma
from .. import scoresdrv as sd

PROP = "C08"

MC_CFG = """SPECIFICATION Spec
CONSTANTS
  K = {K}
  MaxP = {MaxP}
  MaxN = {MaxN}
  EasyPairs <- {Easy}
  Qs <- {Qs}
PROPERTY SwapRelation
PROPERTY SwapRates
PROPERTY SwapInvolution
PROPERTY NegateRelation
PROPERTY NegateThresholds
POSTCONDITION EmitCases
CHECK_DEADLOCK FALSE
"""
TIERS = {
    "quick": dict(K=3, MaxP=3, MaxN=2, Easy="EasyQuick", Qs="QsQuick"),
    "thorough": dict(K=4, MaxP=3, MaxN=3, Easy="EasyThorough", Qs="QsThorough"),
}


def neg_gamma(g):
    inv = (lambda x: -g.inv(-x)) if g._inv is not None else None
    return gamma.Gamma("neg:" + g.name, lambda w: -g(-w), inv, dtype=float)


def negate_obj(o):
    return {"pos": sorted(-v for v in o["pos"]), "neg": sorted(-v for v in o["neg"]),
            "ep": o["ep"], "en": o["en"], "sc": "neg" if o["sc"] == "pos" else "pos", "ec": o["ec"]}


def swap_obj(o):
    fl = lambda c: "neg" if c == "pos" else "pos"  # noqa
    return {"pos": list(o["neg"]), "neg": list(o["pos"]), "ep": o["en"], "en": o["ep"],
            "sc": fl(o["sc"]), "ec": fl(o["ec"])}


def grid(K, g, negate=False):
    t2s, ths = [], []
    for t2 in range(-1, 2 * K):
        if t2 % 2 and g.name.startswith("ulp"):
            continue                  # neighbouring scores are neighbouring doubles: nothing in between
        for f in (["mid"] if t2 % 2 == 0 else ["mid", "lo", "hi"]):
            t2s.append(t2)
            ths.append(g.thr(t2, f))
    t2s += [-99, 99]          # +-inf: beyond every (also every materialised) score
    ths += [-np.inf, np.inf]
    if negate:
        return [-t for t in t2s], [-t for t in ths]
    return t2s, ths


def probe(ev, s, o, h, K, g, qs, negate=False, base_g=None):
    """o = abstract object behind s; g = the concretisation s was built with."""
    t2s, ths = grid(K, base_g or g, negate)
    e = ev("probe", h=h, t2=t2s, cm=[], rates={}, thr={}, auc=[0, 0], pauc=[0, 0], pauc2=[0, 0], axes=[],
           eer={"ok": False, "e6": 0, "t4": 0})
    try:
        th = np.array(ths)
        m = s.cm(th).matrix
        e["cm"] = [[int(r[0, 0]), int(r[0, 1]), int(r[1, 0]), int(r[1, 1])] for r in m]
        for name in sd.METRICS:
            e["rates"][name] = [gamma.proj_rat(x, 1000) for x in np.asarray(getattr(s, name)(th))]
        lite = (base_g or g).name.startswith("ulp")     # interpolated thresholds cannot be represented
        for name in sd.METRICS:
            S = sd.rel_scores(o, name)
            if not S or lite:
                continue
            rs = sd.targets(o, name, qs)
            rf = np.array([f.numerator / f.denominator for f in rs])
            proj = sd.ThrProjector(g, S)
            t = np.asarray(getattr(s, "threshold_at_" + name)(rf), dtype=float)
            e["thr"][name] = [proj(x) for x in t]
        if len(o["pos"]) and len(o["neg"]):
            e["auc"] = gamma.proj_rat(s.auc(), 5000, ulps=64)
            e["pauc"] = gamma.proj_rat(s.auc(0.25, 0.75), 20000, ulps=64)
            e["pauc2"] = gamma.proj_rat(s.auc(0.1, 0.6, x_axis="fnr", y_axis="tnr"), 20000, ulps=64)
            # the full range under the other axis pairs
            e["axes"] = [gamma.proj_rat(s.auc(x_axis=x_, y_axis=y_), 20000, ulps=64)
                         for x_, y_ in (("tnr", "tpr"), ("fpr", "fnr"), ("fnr", "fpr"), ("tpr", "fpr"), ("fnr", "tnr"))]
            if lite:
                return e
            t, ee = s.eer()
            proj = sd.ThrProjector(g, sorted(set(o["pos"]) | set(o["neg"])))
            e["eer"] = {"ok": True, "e6": int(round(float(ee) * 1e6)),
                        "t4": int(round(proj.abs_coord(float(t)) * 1e4))}
    except Exception as ex:  # noqa
        e["exc"] = sd.exc_str(ex)
    return e


def events_for_case(o, cid, g, g2, K, qs, ids):
    from score_analysis import Scores
    evs = []
    ev = sd.make_ev(evs, ids, cid, g)
    s = sd.new_event(ev, o, g, h=1)
    if s is None:
        return evs
    probe(ev, s, o, 1, K, g, qs)
    # swap(): a library call
    e = ev("Derive", kind="swap", h=1, h2=2, post=dict(sd.EMPTY_POST))
    try:
        s2 = s.swap()
        e["post"] = sd.alpha_obj(s2, sd.inv_map(g))
        probe(ev, s2, swap_obj(o), 2, K, g, qs)
    except Exception as ex:  # noqa
        e["exc"] = sd.exc_str(ex)
    # the subclass: per-group matrices before swap(), of the swapped object, and of the original again
    if o["ep"] == 0 and o["en"] == 0 and (o["pos"] or o["neg"]):
        e = ev("group_swap", h=1, a=[], b=[], a2=[])
        try:
            sg = sd.new_group_event(ev, o, g, h=6, seed=cid)
            t2s, ths = grid(K, g)
            th = np.array(ths)
            rows = lambda x: [[[int(c[0, 0]), int(c[0, 1]), int(c[1, 0]), int(c[1, 1])] for c in grp]  # noqa
                              for grp in np.asarray(x.group_cm(th).matrix)]
            if cid % 2:
                e["a"] = rows(sg)
                e["b"] = rows(sg.swap())
            else:
                sw = sg.swap()
                e["b"] = rows(sw)
                e["a"] = rows(sg)
            e["a2"] = rows(sg)
        except Exception as ex:  # noqa
            e["exc"] = sd.exc_str(ex)
    # negate + flip score_class: environment action on the inputs
    on = negate_obj(o)
    gn = neg_gamma(g)
    e = ev("Derive", kind="negate", h=1, h2=3, post=dict(sd.EMPTY_POST))
    try:
        s3 = Scores(-np.asarray(s.pos, dtype=float)[::-1], -np.asarray(s.neg, dtype=float)[::-1],
                    nb_easy_pos=o["ep"], nb_easy_neg=o["en"], score_class=on["sc"],
                    equal_class=on["ec"])
        e["post"] = sd.alpha_obj(s3, sd.inv_map(gn))
        probe(ev, s3, on, 3, K, gn, qs, negate=True, base_g=g)
    except Exception as ex:  # noqa
        e["exc"] = sd.exc_str(ex)
    # history: another configuration is assigned to the first object; swap() of it is probed again
    if cid % 2 == 0 and not g.name.startswith("ulp"):
        o5 = sd.set_config_event(ev, s, o, g, h=1, k=cid // 2)
        if o5 is not None:
            probe(ev, s, o5, 1, K, g, qs)
            e = ev("Derive", kind="swap", h=1, h2=7, post=dict(sd.EMPTY_POST))
            try:
                s7 = s.swap()
                e["post"] = sd.alpha_obj(s7, sd.inv_map(g))
                probe(ev, s7, swap_obj(o5), 7, K, g, qs)
            except Exception as ex:  # noqa
                e["exc"] = sd.exc_str(ex)
            # restore the original configuration for the remaining relations
            from score_analysis.scores import BinaryLabel
            e = ev("SetConfig", h=1, sc=o["sc"], ec=o["ec"], as_string=False, post=dict(sd.EMPTY_POST))
            s.score_class, s.equal_class = BinaryLabel(o["sc"]), BinaryLabel(o["ec"])
            e["post"] = sd.alpha_obj(s, sd.inv_map(g))
            probe(ev, s, o, 1, K, g, qs)
    # increasing affine map: the same abstract object under another concretisation
    e = ev("Derive", kind="affine", h=1, h2=4, post=dict(sd.EMPTY_POST), conc2=g2.name)
    try:
        s4 = sd.build(o, g2)
        e["post"] = sd.alpha_obj(s4, sd.inv_map(g2))
        probe(ev, s4, o, 4, K, g2, qs)
    except Exception as ex:  # noqa
        e["exc"] = sd.exc_str(ex)
    return evs


AFFINE = [gamma.affine(2.5, -7.0), gamma.affine(1e-3, 1e3), gamma.affine(3.0, 0.125),
          gamma.affine(0.1, 0.3), gamma.affine(0.5, 100.0), gamma.affine(17.0, -400.0)]


def run(ctx: core.Ctx):
    core.import_repo()
    par = TIERS[ctx.tier]
    cases_file = ctx.work / "cases.json"
    ctx.model("MC_C08", MC_CFG.format(**par), env={"CASES_FILE": cases_file})
    data = json.loads(cases_file.read_text())
    K, qs, cases = data["k"], data["qs"], data["cases"]
    ids = iter(range(1, 10**9))
    events = []
    base = [gamma.ident(), gamma.affine(2.0, 1.0), gamma.half_mixed()]   # the last: int-typed next to float class
    for cid, o in enumerate(cases):
        g = base[(cid + ctx.seed) % len(base)]
        naff = len(AFFINE) if ctx.tier == "thorough" else 4
        g2 = AFFINE[(cid + ctx.seed) % naff]
        events += events_for_case(o, cid, g, g2, K, qs, ids)
        vals = list(o["pos"]) + list(o["neg"])
        if len(set(vals)) < len(vals) or o["ep"] or o["en"]:
            ctx.nontrivial.add(json.dumps(o, sort_keys=True))
    # scores that are neighbouring doubles (0.5 + v ulps) against the same data shifted by -0.25 (exact;
    # the neighbours are then two ulps apart): matrices / rates on the scores, AUC and partial AUC
    u = 2.0 ** -53
    g_ulp = gamma.ulp_adjacent(0.5)
    g_sh = gamma.Gamma("ulp-shifted", lambda v: 0.25 + v * u, lambda x: (x - 0.25) / u)
    for cid, o in enumerate(cases):
        if (cid + ctx.seed) % (3 if ctx.tier == "quick" else 1) == 0:
            events += events_for_case(o, cid, g_ulp, g_sh, K, qs, ids)
    for e in events[:2]:
        ctx.sample(e)
    ctx.judge("Trace_C08", events, cases=cases, batch=1500)
    ctx.rule = ("every object of the bounded model, probed as itself, swapped, negated with flipped "
                "score_class, and under a second affine concretisation; relations checked between "
                "recorded probes; non-trivial = object has a tie or easy samples")
    ctx.exhaustive = True
    ctx.extra["constants"] = par
    ctx.extra["affine_maps"] = [g.name for g in AFFINE]
    ctx.assumptions = ["small-scope", "EER compared to 2e-6 / thresholds to 5e-4 abstract units "
                       "(bisection tolerance of the implementation is 1e-10 in rate space)"]
    return ctx.finish()


def replay(ctx: core.Ctx, body):
    core.import_repo()
    o = body["case"]
    K = max([3] + [v + 1 for v in o["pos"] + o["neg"]])
    ids = iter(range(1, 10**9))
    events = []
    for g2 in AFFINE:
        events += events_for_case(o, 0, gamma.ident(), g2, K, [1, 2, 3], ids)
    ctx.judge("Trace_C08", events, cases=[o])
    return ctx.finish()
