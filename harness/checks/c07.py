"""C07 - AUC = Mann-Whitney statistic; partial AUC = exact step-ROC area.

Leg A: TLC on MC_C07 (TrapezoidCoded vs MannWhitney for all ties, vs StepArea
without cross-class ties, additivity, bound, y-complement, x-mirror, axis
exchange, independence of equal_class).
Leg B: every object TLC enumerated is built for real (both tie conventions) and
Scores.auc is called for the full range, every window of the cut set and the
complemented / mirrored / exchanged axis pairs.
Leg C: TLC validates the recorded rationals (Trace_C07).
"""
from __future__ import annotations

import json
from fractions import Fraction

import numpy as np

from .. import core, gamma
from .. import scoresdrv as sd

PROP = "C07"
MC_CFG = """SPECIFICATION Spec
CONSTANTS
  K = {K}
  MaxP = {MaxP}
  MaxN = {MaxN}
  EasyPairs <- {Easy}
  Cuts <- {Cuts}
INVARIANT InvFullIsMannWhitney
INVARIANT InvWindows
INVARIANT InvAxisExchange
PROPERTY EqualClassIrrelevant
POSTCONDITION EmitCases
CHECK_DEADLOCK FALSE
"""
TIERS = {
    "quick": dict(K=3, MaxP=3, MaxN=2, Easy="EasyQuick", Cuts="CutsQuick"),
    "thorough": dict(K=4, MaxP=3, MaxN=2, Easy="EasyThorough", Cuts="CutsThorough"),
}


def queries(cuts, cid):
    cs = sorted(Fraction(c[0], c[1]) for c in cuts)
    qs = [(Fraction(0), Fraction(1), "fpr", "tpr"), (Fraction(0), Fraction(1), "tpr", "fpr")]
    k = 0
    for i, a in enumerate(cs):
        for b in cs[i:]:
            qs.append((a, b, "fpr", "tpr"))
            if (k + cid) % 3 == 0:
                qs.append((a, b, "fpr", "fnr"))
                qs.append((1 - b, 1 - a, "tnr", "tpr"))
            k += 1
    return list(dict.fromkeys(qs))


ALIAS = {"fpr": "far", "tpr": "tar", "fnr": "frr", "tnr": "trr"}


def bound(fr, k):
    """an integration limit as a Python float, or in another numeric type that represents it exactly"""
    x = fr.numerator / fr.denominator
    if fr.denominator == 1 and k % 3 == 1:
        return [int(fr), bool(fr), np.int64(int(fr))][k % 3 if False else (k // 3) % 3]
    if fr.denominator in (1, 2, 4, 8) and k % 3 == 2:
        return [np.float32(x), np.array(x), np.float16(x)][(k // 3) % 3]
    return x


def auc_event(ev, s, h, qs, variant=0):
    e = ev("auc", h=h, q=[[a.numerator, a.denominator, b.numerator, b.denominator, x, y]
                          for a, b, x, y in qs], out=[], add=[], comp=[], mirr=[])
    idx = {q: i + 1 for i, q in enumerate(qs)}
    for (a, b, x, y), i in idx.items():
        if (x, y) != ("fpr", "tpr"):
            continue
        if (a, b, "fpr", "fnr") in idx:
            e["comp"].append([i, idx[(a, b, "fpr", "fnr")]])
        if (1 - b, 1 - a, "tnr", "tpr") in idx:
            e["mirr"].append([i, idx[(1 - b, 1 - a, "tnr", "tpr")]])
        for (b2, c, x2, y2), j in idx.items():
            if (x2, y2) == ("fpr", "tpr") and b2 == b and a < b < c and (a, c, "fpr", "tpr") in idx:
                e["add"].append([i, j, idx[(a, c, "fpr", "tpr")]])
    try:
        out = []
        for k, (a, b, x, y) in enumerate(qs):
            if (a, b, x, y) == (Fraction(0), Fraction(1), "fpr", "tpr") and variant % 2 == 0:
                v = s.auc()                               # the documented defaults
            else:
                # axis names possibly through their aliases, limits possibly as ints / bools / float32 / 0-d arrays
                xa = ALIAS[x] if (variant + k) % 3 == 1 else x
                ya = ALIAS[y] if (variant + k) % 4 == 2 else y
                v = s.auc(bound(a, variant + k), bound(b, variant + k + 3), x_axis=xa, y_axis=ya)
            out.append(gamma.proj_rat(v, 20000, ulps=256))
        e["out"] = out
    except Exception as ex:  # noqa
        e["exc"] = sd.exc_str(ex)


HUGE = [3_000_000_000, 5_000_000_000, 2**31, 2**32 + 1]


def auc_huge_event(ev, o, g, h, cid):
    """the object of handle h rebuilt with >= 2^31 easy samples on one side (the other side keeps its
    small easy count): records x = (1 - auc) * population of the huge side, a small rational that
    does not depend on the huge count."""
    side = ["neg", "pos"][cid % 2]
    E = HUGE[(cid // 2) % len(HUGE)]
    e = ev("auc_huge", h=h, side=side, x=[0, 0])
    try:
        o2 = dict(o, en=E) if side == "neg" else dict(o, ep=E)
        v = float(sd.build(o2, g).auc())
        n_side = (len(o["neg"]) if side == "neg" else len(o["pos"])) + E
        x = (1.0 - v) * n_side
        fr = Fraction(x).limit_denominator(64)
        e["x"] = [fr.numerator, fr.denominator] if (abs(float(fr) - x) <= 1e-4 * max(abs(x), 1e-3)
                                                      and abs(fr.numerator) < 10**6) else [0, -1]
    except Exception as ex:  # noqa
        e["exc"] = sd.exc_str(ex)


def events_for_case(o, cid, g, cuts, ids):
    evs = []
    ev = sd.make_ev(evs, ids, cid, g)
    s = sd.new_event(ev, o, g, h=1)
    if s is None:
        return evs
    auc_event(ev, s, 1, queries(cuts, cid), variant=cid)
    if cid % 3 == 0:
        on = dict(o, en=0) if cid % 2 == 0 else dict(o, ep=0)   # abstract object: huge side declared 0
        sn = sd.new_event(ev, on, g, h=3)
        if sn is not None:
            auc_huge_event(ev, on, g, 3, cid)
    o2 = dict(o, ec="neg" if o["ec"] == "pos" else "pos")
    s2 = sd.new_event(ev, o2, g, h=2)
    if s2 is not None:
        auc_event(ev, s2, 2, [(Fraction(0), Fraction(1), "fpr", "tpr")])
    if cid % 2 == 1 and not g.name.startswith("ulp"):
        # history: a score array of the first (already queried) object is re-bound to a new array
        o3 = sd.set_scores_event(ev, s, o, g, cls_=["neg", "pos"][(cid // 2) % 2], h=1)
        if o3 is not None:
            auc_event(ev, s, 1, queries(cuts, cid)[:12])
    if cid % 2 == 0:
        # history: another configuration is assigned to the first (already queried) object
        o3 = sd.set_config_event(ev, s, o, g, h=1, k=cid // 2)
        if o3 is not None:
            auc_event(ev, s, 1, queries(cuts, cid)[:12])
    return evs


def run(ctx: core.Ctx):
    core.import_repo()
    par = TIERS[ctx.tier]
    cases_file = ctx.work / "cases.json"
    ctx.model("MC_C07", MC_CFG.format(**par), env={"CASES_FILE": cases_file}, timeout=7200)
    data = json.loads(cases_file.read_text())
    cuts, cases = data["cuts"], data["cases"]
    fam = [gamma.ident(), gamma.affine(2.5, -7.0), gamma.ident_int(), gamma.affine(0.1, 0.3),
           gamma.affine(700.0, 3.0), gamma.ulp_adjacent(0.5), gamma.ulp_adjacent(1024.0)]
    ids = iter(range(1, 10**9))
    events = []
    for cid, o in enumerate(cases):
        g = fam[(cid + ctx.seed) % len(fam)]
        events += events_for_case(o, cid, g, cuts, ids)
        vals = list(o["pos"]) + list(o["neg"])
        if len(set(vals)) < len(vals) or o["ep"] or o["en"]:
            ctx.nontrivial.add(json.dumps(o, sort_keys=True))
    ctx.sample(events[1])
    ctx.judge("Trace_C07", events, cases=cases, batch=600)
    ctx.rule = ("every object of the bounded model with both classes non-empty x {full AUC, all windows "
                "over the cut set, complemented / mirrored / exchanged axes}; non-trivial = ties or easy samples")
    ctx.exhaustive = True
    ctx.extra["constants"] = par
    ctx.assumptions = ["small-scope", "AUC floats projected to rationals with denominator <= 20000"]
    return ctx.finish()


def replay(ctx: core.Ctx, body):
    core.import_repo()
    o = body["case"]
    cuts = [[0, 1], [1, 5], [1, 4], [1, 3], [1, 2], [2, 3], [4, 5], [1, 1]]
    ids = iter(range(1, 10**9))
    events = []
    for g in [gamma.ident(), gamma.affine(2.5, -7.0), gamma.ident_int(), gamma.affine(700.0, 3.0)]:
        events += events_for_case(o, 0, g, cuts, ids)
    ctx.judge("Trace_C07", events, cases=[o])
    return ctx.finish()
