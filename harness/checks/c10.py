"""C10 - queries are vectorised elementwise, shape-preserving, side-effect free.

Leg A: TLC on MC_C10 (System: a store of objects, constructor and query actions;
queries leave the store unchanged - action properties) exhaustively for one or
two calls, and `-simulate` behaviours (sequences of calls with argument shapes
0-d to 3-d incl. size-0 axes).
Leg B: every simulated behaviour is replayed call by call on one real object;
after EVERY call the projected object state and the caller's array are recorded,
each vectorised call is accompanied by the scalar calls on its elements, its
alias, and is repeated later in the history.
Leg C: TLC validates (Trace_C10).
"""
from __future__ import annotations

import json

import numpy as np

from .. import core, gamma, simparse
from .. import scoresdrv as sd

PROP = "C10"
MC_CFG = """SPECIFICATION SSpec
CONSTANTS
  Objects <- ObjsQuick
  MaxCalls = {MaxCalls}
PROPERTY QueriesAreSideEffectFree
PROPERTY StoreOnlyGrows
PROPERTY SetEasyIsLocal
PROPERTY AssignmentsAreLocal
CHECK_DEADLOCK FALSE
"""
TIERS = {"quick": dict(MaxCalls=1, nsim=100, depth=10), "thorough": dict(MaxCalls=2, nsim=800, depth=14)}
ALIAS = {"tpr": "tar", "fnr": "frr", "tnr": "trr", "fpr": "far", "topr": "acceptance_rate",
         "tonr": "rejection_rate", "tar": "tpr", "frr": "fnr", "trr": "tnr", "far": "fpr",
         "acceptance_rate": "topr", "rejection_rate": "tonr", "cm": "confusion_matrix"}
for m_, a_ in (("tpr", "tar"), ("fnr", "frr"), ("tnr", "trr"), ("fpr", "far"),
               ("topr", "acceptance_rate"), ("tonr", "rejection_rate")):
    ALIAS["threshold_at_" + m_] = "threshold_at_" + a_
METHODS = ["linear", "lower", "higher"]


def proj_out(op, res, projt):
    """flatten + project a result to JSON-able exact values"""
    if op == "cm":
        m = np.asarray(res.matrix if hasattr(res, "matrix") else res)
        return [[int(x[0, 0]), int(x[0, 1]), int(x[1, 0]), int(x[1, 1])] for x in m.reshape(-1, 2, 2)]
    if op == "pointwise_cm":
        m = np.asarray(res).astype(int)
        return [[int(x[0, 0]), int(x[0, 1]), int(x[1, 0]), int(x[1, 1])] for x in m.reshape(-1, 2, 2)]
    if op.startswith("threshold_at_"):
        return [projt(x) for x in np.asarray(res, dtype=float).reshape(-1)]
    if op == "eer":
        return [[int(round(float(res[0]) * 1e6)), 1], [int(round(float(res[1]) * 1e9)), 1]]
    if op == "auc":
        return [gamma.proj_rat(res, 20000, ulps=256)]
    return [gamma.proj_rat(x, 1000) for x in np.asarray(res, dtype=float).reshape(-1)]


def shape_of(op, res):
    if op == "cm":
        return list(np.asarray(res.matrix).shape)
    if op == "eer":
        return [len(res)]
    return list(np.shape(res))


def is_plain_scalar(x):
    return isinstance(x, (float, int)) and not isinstance(x, np.ndarray) and not isinstance(x, np.generic) \
        or isinstance(x, float)


def call(s, o, op, arr, g, method, use_alias=False):
    from score_analysis import pointwise_cm
    name = ALIAS[op] if use_alias else op
    if op == "pointwise_cm":
        labels = np.array([1] * len(o["pos"]) + [0] * len(o["neg"]))
        scores = np.concatenate([g.arr(o["pos"]), g.arr(o["neg"])]).astype(float)
        return pointwise_cm(labels, scores, arr, pos_label=1, score_class=o["sc"], equal_class=o["ec"])
    if op == "cm_metrics":
        c = s.cm(arr)
        return c.ppv() if not use_alias else c.ppv()
    if op == "eer":
        return s.eer()
    if op == "auc":
        return s.auc()
    if op.startswith("threshold_at_"):
        return getattr(s, name)(arr, method=method)
    return getattr(s, name)(arr)


def query_event(ev, s, o, h, op, shape, arg, g, method, dtype_variant):
    """arg: abstract flattened argument (t2 ints or [n,d] targets)"""
    is_tgt = op.startswith("threshold_at_")
    e = ev("Query", h=h, opname=op, shape=list(shape), arg=[list(a) if is_tgt else a for a in arg],
           method=method if is_tgt else "", out_shape=[], out=[], scalar_out=[], scalar_exact=True,
           scalar_type_ok=True, alias_out=[], alias_exact=True,
           post=dict(sd.EMPTY_POST), arg_after=[], arg_bitwise_same=True, fresh_out=[], fresh_exact=True)
    try:
        if is_tgt:
            flat = np.array([a[0] / a[1] for a in arg], dtype=float)
        else:
            flat = np.array([g.thr(t) for t in arg], dtype=float)
        arr = flat.reshape(tuple(shape))
        if len(shape) >= 2 and dtype_variant % 3 == 1:
            arr = np.asfortranarray(arr)                       # same values, column-major memory layout
        elif len(shape) >= 2 and dtype_variant % 3 == 2:
            arr = np.ascontiguousarray(np.moveaxis(arr, 0, -1))
            arr = np.moveaxis(arr, -1, 0)                      # a non-contiguous view (axes moved)
        if len(shape) == 0 and dtype_variant % 2:
            arr = float(flat[0])                               # a Python scalar instead of a 0-d array
        keep = np.array(arr, copy=True)
        S = sd.rel_scores(o, op[len("threshold_at_"):]) if is_tgt else sorted(set(o["pos"]) | set(o["neg"])) or [0]
        projt = sd.ThrProjector(g, S)
        scalar_ops = op in ("eer", "auc")
        res = call(s, o, op, arr, g, method)
        e["out_shape"] = shape_of(op, res)
        e["out"] = proj_out(op, res, projt)
        if len(shape) == 0 and not scalar_ops and op not in ("cm", "pointwise_cm"):
            e["scalar_type_ok"] = bool(is_plain_scalar(res))
        # caller's array after the call
        after = np.asarray(arr, dtype=float).reshape(-1)
        e["arg_bitwise_same"] = bool(np.array_equal(np.asarray(arr), keep))
        if is_tgt:
            e["arg_after"] = [[int(round(x * 6)), 6] if abs(x * 6 - round(x * 6)) < 1e-9 else [0, 0] for x in after]
        else:
            back = {float(g.thr(t)): t for t in range(-3, 12)}
            e["arg_after"] = [back.get(float(x), -999) for x in after]
        # object state after the call
        e["post"] = sd.alpha_obj(s, sd.inv_map(g))
        # the same call on a freshly built equal object: the result may not depend on what was
        # asked of this object before
        fresh = sd.build(o, g, cls=type(s))
        rf_ = call(fresh, o, op, keep.copy() if isinstance(keep, np.ndarray) and keep.ndim else arr, g, method)
        e["fresh_out"] = proj_out(op, rf_, projt)
        a1 = np.asarray(rf_.matrix if op == "cm" else rf_, dtype=float)
        a2 = np.asarray(res.matrix if op == "cm" else res, dtype=float)
        e["fresh_exact"] = bool(a1.shape == a2.shape and np.array_equal(a1, a2, equal_nan=True))
        if not scalar_ops:
            # the scalar call on every element
            outs, exact = [], True
            rflat = None if op in ("cm", "pointwise_cm") else np.asarray(res, dtype=float).reshape(-1)
            for i, x in enumerate(flat):
                r1 = call(s, o, op, float(x), g, method)
                outs += proj_out(op, r1, projt)
                if op not in ("cm", "pointwise_cm", "cm_metrics"):
                    e["scalar_type_ok"] = e["scalar_type_ok"] and bool(is_plain_scalar(r1))
                    exact = exact and (float(r1) == float(rflat[i]) or (r1 != r1 and rflat[i] != rflat[i]))
            if op == "pointwise_cm":
                # scalar threshold calls give (n_scores, 2, 2) blocks: interleave as the vector call does
                n_el = len(flat)
                ns = len(o["pos"]) + len(o["neg"])
                blocks = [outs[i * ns:(i + 1) * ns] for i in range(n_el)]
                outs = [blocks[i][j] for j in range(ns) for i in range(n_el)]
            e["scalar_out"], e["scalar_exact"] = outs, bool(exact)
            if op in ALIAS:
                ra = call(s, o, op, arr, g, method, use_alias=True)
                e["alias_out"] = proj_out(op, ra, projt)
                a1 = np.asarray(ra.matrix if op == "cm" else ra)
                a2 = np.asarray(res.matrix if op == "cm" else res)
                e["alias_exact"] = bool(np.array_equal(a1, a2, equal_nan=True))
            else:
                e["alias_out"] = e["out"]
        else:
            e["alias_out"] = e["out"]
    except Exception as ex:  # noqa
        e["exc"] = sd.exc_str(ex)
    return e


Smooth = None        # module-level (so that instances can be pickled), created on first use


def smooth_subclass():
    """a user subclass that overrides the six primary rates (add-one smoothing); the aliases must follow"""
    global Smooth
    if Smooth is not None:
        return Smooth
    from score_analysis import Scores

    class Smooth(Scores):   # noqa: F811
        def _sm(self, num, den):
            return (np.asarray(num) + 1.0) / (np.asarray(den) + 2.0)

        def tpr(self, threshold):
            c = self.cm(threshold)
            return self._sm(c.tp(), c.p())

        def fnr(self, threshold):
            c = self.cm(threshold)
            return self._sm(c.fn(), c.p())

        def tnr(self, threshold):
            c = self.cm(threshold)
            return self._sm(c.tn(), c.n())

        def fpr(self, threshold):
            c = self.cm(threshold)
            return self._sm(c.fp(), c.n())

        def topr(self, threshold):
            c = self.cm(threshold)
            return self._sm(c.top(), c.pop())

        def tonr(self, threshold):
            c = self.cm(threshold)
            return self._sm(c.ton(), c.pop())
    Smooth.__qualname__ = "Smooth"
    globals()["Smooth"] = Smooth
    return Smooth


def steps_of(beh):
    """[(kind, h, op, shape, arg)] read from the `last` variable of every state"""
    out = []
    for stp in beh[1:]:
        last = stp["state"]["last"]
        if last["op"] == "swap":
            out.append(["SwapCall", last["h"], "", [], []])
        elif last["op"] == "set_easy":
            out.append(["SetEasy", last["h"], "", [], [int(x) for x in last["arg"]]])
        elif last["op"] == "set_config":
            out.append(["SetConfig", last["h"], "", [], [str(x) for x in last["arg"]]])
        elif last["op"] == "copy":
            out.append(["Copy", last["h"], "", [], [str(last["arg"][0])]])
        elif last["op"] == "shift_scores":
            out.append(["ShiftScores", last["h"], "", [], [int(last["arg"][0])]])
        elif last["op"] == "set_scores":
            out.append(["SetScores", last["h"], "", [], [str(last["arg"][0]), [int(x) for x in last["arg"][1]]]])
        else:
            out.append(["Query", last["h"], last["op"], list(last["shape"]),
                        [list(a) if isinstance(a, tuple) else a for a in last["arg"]]])
    return out


def replay_behaviour(o0, steps_in, cid, ids, seed):
    g = [gamma.ident(), gamma.affine(2.0, 1.0), gamma.affine(0.5, -3.0), gamma.ident_int(), gamma.ident_f32()][(cid + seed) % 5]
    evs = []
    ev = sd.make_ev(evs, ids, cid, g)
    objs = [dict(o0)]
    real = [sd.new_event(ev, objs[0], g, h=1, **({"cls": smooth_subclass()} if cid % 4 == 3 else {}))]
    if real[0] is None:
        return evs, []
    steps, again = [], []
    for k, (act, h_, op_, shape_, arg_) in enumerate(steps_in):
        args = (h_,) if act == "SwapCall" else (h_, op_, shape_, arg_)
        if act == "SwapCall":
            h = args[0]
            e = ev("Swap", h=h, post=dict(sd.EMPTY_POST), src_post=dict(sd.EMPTY_POST))
            try:
                s2 = real[h - 1].swap()
                e["post"] = sd.alpha_obj(s2, sd.inv_map(g))
                e["src_post"] = sd.alpha_obj(real[h - 1], sd.inv_map(g))
                real.append(s2)
                objs.append({"pos": list(objs[h - 1]["neg"]), "neg": list(objs[h - 1]["pos"]),
                             "ep": objs[h - 1]["en"], "en": objs[h - 1]["ep"],
                             "sc": "neg" if objs[h - 1]["sc"] == "pos" else "pos",
                             "ec": "neg" if objs[h - 1]["ec"] == "pos" else "pos"})
            except Exception as ex:  # noqa
                e["exc"] = sd.exc_str(ex)
                break
            steps.append(["SwapCall", h])
        elif act == "SetEasy":
            h, (ep, en) = h_, arg_
            e = ev("SetEasy", h=h, ep=ep, en=en, post=dict(sd.EMPTY_POST))
            try:
                real[h - 1].nb_easy_pos, real[h - 1].nb_easy_neg = ep, en
                objs[h - 1] = dict(objs[h - 1], ep=ep, en=en)
                e["post"] = sd.alpha_obj(real[h - 1], sd.inv_map(g))
            except Exception as ex:  # noqa
                e["exc"] = sd.exc_str(ex)
                break
            steps.append(["SetEasy", h, ep, en])
        elif act == "SetConfig":
            from score_analysis.scores import BinaryLabel
            h, (sc, ec) = h_, arg_
            e = ev("SetConfig", h=h, sc=sc, ec=ec, as_string=bool((cid + k) % 2), post=dict(sd.EMPTY_POST))
            try:
                if (cid + k) % 2:          # plain strings (the label type compares equal to them) ...
                    real[h - 1].score_class, real[h - 1].equal_class = sc, ec
                else:                      # ... or enum members
                    real[h - 1].score_class, real[h - 1].equal_class = BinaryLabel(sc), BinaryLabel(ec)
                objs[h - 1] = dict(objs[h - 1], sc=sc, ec=ec)
                e["post"] = sd.alpha_obj(real[h - 1], sd.inv_map(g))
            except Exception as ex:  # noqa
                e["exc"] = sd.exc_str(ex)
                break
            steps.append(["SetConfig", h, sc, ec])
        elif act == "Copy":
            import copy
            import pickle
            h, how = h_, arg_[0]
            e = ev("Copy", h=h, how=how, post=dict(sd.EMPTY_POST), src_post=dict(sd.EMPTY_POST))
            try:
                src_ = real[h - 1]
                s2 = copy.copy(src_) if how == "copy" else copy.deepcopy(src_) if how == "deepcopy" else \
                    pickle.loads(pickle.dumps(src_, protocol=[2, pickle.HIGHEST_PROTOCOL][(cid + k) % 2]))
                e["post"] = sd.alpha_obj(s2, sd.inv_map(g))
                e["src_post"] = sd.alpha_obj(src_, sd.inv_map(g))
                real.append(s2)
                objs.append(dict(objs[h - 1]))
            except Exception as ex:  # noqa
                e["exc"] = sd.exc_str(ex)
                break
            steps.append(["Copy", h, how])
        elif act == "ShiftScores":
            h, d = h_, int(arg_[0])
            e = ev("ShiftScores", h=h, d=d, posts=[])
            try:
                delta = g(d) - g(0)                      # the concretisations used here are affine
                hit = {id(real[h - 1].pos), id(real[h - 1].neg)}
                for arr_ in {id(real[h - 1].pos): real[h - 1].pos, id(real[h - 1].neg): real[h - 1].neg}.values():
                    arr_ += np.asarray(delta).astype(arr_.dtype)      # in place: same array objects
                # the abstract objects: every live object holding one of these arrays sees the write
                for k_ in range(len(objs)):
                    if id(real[k_].pos) in hit:
                        objs[k_] = dict(objs[k_], pos=[v + d for v in objs[k_]["pos"]])
                    if id(real[k_].neg) in hit:
                        objs[k_] = dict(objs[k_], neg=[v + d for v in objs[k_]["neg"]])
                e["posts"] = [sd.alpha_obj(r_, sd.inv_map(g)) for r_ in real]
            except Exception as ex:  # noqa
                e["exc"] = sd.exc_str(ex)
                break
            steps.append(["ShiftScores", h, d])
        elif act == "SetScores":
            h, (cls_, seq) = h_, arg_
            e = ev("SetScores", h=h, cls=cls_, seq=list(seq), post=dict(sd.EMPTY_POST))
            try:
                setattr(real[h - 1], cls_, g.arr(seq))
                objs[h - 1] = dict(objs[h - 1], **{cls_: list(seq)})
                e["post"] = sd.alpha_obj(real[h - 1], sd.inv_map(g))
            except Exception as ex:  # noqa
                e["exc"] = sd.exc_str(ex)
                break
            steps.append(["SetScores", h, cls_, list(seq)])
        elif act == "Query":
            h, op, shape, arg = args
            method = METHODS[(cid + k) % 3]
            query_event(ev, real[h - 1], objs[h - 1], h, op, list(shape), list(arg), g, method, cid + k)
            again.append((h, op, list(shape), list(arg), method, cid + k))
            steps.append(["Query", h, op, list(shape)])
    for (h, op, shape, arg, method, dv) in again:           # the same queries once more, later in the history
        query_event(ev, real[h - 1], objs[h - 1], h, op, shape, arg, g, method, dv)
    return evs, steps


def run(ctx: core.Ctx):
    core.import_repo()
    par = TIERS[ctx.tier]
    cfg = MC_CFG.format(MaxCalls=par["MaxCalls"])
    ctx.model("MC_C10", cfg, timeout=7200)
    simdir = ctx.work / "sim"
    simdir.mkdir(exist_ok=True)
    simcfg = MC_CFG.format(MaxCalls=par["depth"])
    r = core.run_tlc("MC_C10", simcfg, ctx.work, "sim", workers=1, simulate=True, timeout=3600,
                     args=["-simulate", f"file={simdir}/b,num={par['nsim']}", "-depth", str(par["depth"]),
                           "-seed", str(ctx.seed + 3)])
    if not r["ok"]:
        raise core.MachineryError("simulation of MC_C10 failed:\n" + r["out"][-2000:])
    ids = iter(range(1, 10**9))
    events, cases = [], []
    for beh in simparse.load(str(simdir / "b")):
        o0, st = dict(beh[0]["state"]["store"][0]), steps_of(beh)
        o0 = {k: (list(v) if isinstance(v, tuple) else v) for k, v in o0.items()}
        evs, steps = replay_behaviour(o0, st, len(cases), ids, ctx.seed)
        events += evs
        cases.append({"object": o0, "steps": st, "cid": len(cases)})
        ctx.nontrivial.add(json.dumps(steps))
    # independent histories: one call with a 40 x 30 array (1200 thresholds in no particular order) per
    # rate method / cm, on two small objects
    rnd = np.random.RandomState(ctx.seed + 77)
    big_ops = ["cm", "tpr", "fnr", "tnr", "fpr", "topr", "tonr", "far", "pointwise_cm"]
    for k in range(len(big_ops) if ctx.tier == "thorough" else 4):
        op = big_ops[(k + ctx.seed) % len(big_ops)]
        o0 = {"pos": sorted(int(x) for x in rnd.randint(0, 4, 3)), "neg": sorted(int(x) for x in rnd.randint(0, 4, 2)),
              "ep": int(rnd.randint(0, 3)), "en": int(rnd.randint(0, 3)),
              "sc": ["pos", "neg"][k % 2], "ec": ["pos", "neg"][(k // 2) % 2]}
        if op == "pointwise_cm":
            o0["ep"] = o0["en"] = 0
        st = [["Query", 1, op, [40, 30], [int(x) for x in rnd.randint(-3, 12, 1200)]]]
        evs, steps = replay_behaviour(o0, st, len(cases), ids, ctx.seed)
        events += evs
        cases.append({"object": o0, "steps": st, "cid": len(cases)})
    ctx.sample([e for e in events if e["cid"] == 0][:3])
    ctx.judge("Trace_C10", events, cases=cases, batch=1500)
    # growth of the specification beyond the listed properties: the documented error paths
    from .. import errors_drv
    err = errors_drv.events(ids)
    ctx.judge("Trace_Errors", err, tag="errors")
    ctx.extra["error_paths_checked"] = len(err)
    ctx.rule = ("behaviours of System generated by TLC -simulate: sequences of up to `depth` calls (cm, 12 rate "
                "methods, 6 threshold_at_* x 3 methods, eer, auc, pointwise_cm, ConfusionMatrix metric, swap) with "
                "argument shapes (), (0,), (3,), (2,0), (2,3), (1,2,2), (2,2); each query also run element by "
                "element, through its alias and again at the end of the history; distinct = distinct call sequences")
    ctx.extra["constants"] = par
    ctx.assumptions = ["histories are sampled by TLC's simulator (seeded), exhaustive only for MaxCalls calls"]
    return ctx.finish()


def replay(ctx: core.Ctx, body):
    core.import_repo()
    c = body["case"]
    ids = iter(range(1, 10**9))
    evs, _ = replay_behaviour(c["object"], c["steps"], c.get("cid", 0), ids, body.get("seed", ctx.seed))
    ctx.judge("Trace_C10", evs, cases=[c])
    return ctx.finish()
