"""C20 - synthetic datasets hit their specified operating points and proportions.

Leg A: TLC on MC_C20 (exact model of the deterministic counts and of the validity
of the correlated-pair joint distribution, decided by squaring).
Leg B: BernoulliDataset / CorrelatedBernoullilDataset on the whole (p1, p2, rho, n)
grid, random and non-random; NormalDataset closed forms on a z grid, round trips
(also in the far tails), roc(), from_metrics(), sample().
Leg C: TLC validates (Trace_C20): counts exactly, analytic values against a Phi
table generated from the Python standard library and as round trips.
"""
from __future__ import annotations

import json

import numpy as np

from .. import core

PROP = "C20"
MC_CFG = """SPECIFICATION Spec
CONSTANTS
  NMax = {NMax}
INVARIANT InvBernoulli
INVARIANT InvIndependentValid
INVARIANT InvPerfectCorrelation
INVARIANT InvSymmetric
CHECK_DEADLOCK FALSE
"""
TIERS = {"quick": dict(NMax=12, ns=[1, 2, 3, 7, 10, 25, 60], stride=3),
         "thorough": dict(NMax=30, ns=list(range(1, 61)), stride=1)}
LIM = 1_500_000_000
PD = 20
RHOS = [-20, -15, -10, -6, -5, -2, 0, 2, 5, 6, 10, 15, 20]


def fx6(x):
    x = float(x)
    return LIM if x != x or np.isinf(x) else int(round(max(-1.4e9, min(1.4e9, x * 1e6))))


def bernoulli_events(par, ids, seed):
    from score_analysis.experimental import BernoulliDataset
    evs = []
    for a in range(0, PD + 1):
        for n in par["ns"]:
            for random in (False, True):
                e = {"id": next(ids), "cid": 0, "op": "bernoulli", "exc": "", "a": a, "n": n, "random": random,
                     "len": 0, "ones": 0, "binary": True}
                try:
                    ds = BernoulliDataset(p=a / PD, n=n if (a + n) % 2 else None)
                    d = np.asarray(ds.sample(n=None if (a + n) % 2 else n, random=random,
                                             rng=np.random.default_rng(seed + a + n)))
                    e["len"] = int(d.shape[0]) if d.ndim == 1 else -1
                    e["ones"] = int((d == 1).sum())
                    e["binary"] = bool(np.isin(d, [0, 1]).all())
                    if (a + n) % 3 == 0 and d.flags.writeable:
                        # history: the caller recodes the sample it was given in place, then draws again
                        d[...] = -7
                        d2 = np.asarray(ds.sample(n=None if (a + n) % 2 else n, random=random,
                                                  rng=np.random.default_rng(seed + a + n + 1)))
                        e["len"] = int(d2.shape[0]) if d2.ndim == 1 else -1
                        e["ones"] = int((d2 == 1).sum())
                        e["binary"] = bool(np.isin(d2, [0, 1]).all())
                        e["after_caller_write"] = True
                except Exception as ex:  # noqa
                    e["exc"] = type(ex).__name__
                evs.append(e)
    # probabilities a hair below / above a twentieth (far more than a rounding error, far less than 1/n)
    for a in range(1, PD + 1):
        for n in par["ns"]:
            for d_, side in ((1e-12, "below"), (1e-10, "below"), (1e-11, "above")):
                if side == "above" and a == PD:
                    continue
                e = {"id": next(ids), "cid": 0, "op": "bernoulli_near", "exc": "", "a": a, "n": n, "side": side,
                     "len": 0, "ones": 0, "binary": True}
                try:
                    p = a / PD - d_ if side == "below" else a / PD + d_
                    d = np.asarray(BernoulliDataset(p=p, n=n).sample(random=False, rng=np.random.default_rng(seed + a)))
                    e["len"], e["ones"] = int(d.shape[0]) if d.ndim == 1 else -1, int((d == 1).sum())
                    e["binary"] = bool(np.isin(d, [0, 1]).all())
                except Exception as ex:  # noqa
                    e["exc"] = type(ex).__name__
                evs.append(e)
    return evs


def correlated_events(par, ids, seed):
    from score_analysis.experimental import CorrelatedBernoullilDataset
    evs = []
    k = 0
    for a1 in range(0, PD + 1):
        for a2 in range(0, PD + 1):
            for r in RHOS:
                k += 1
                if (k + seed) % par["stride"]:
                    continue
                for n in (par["ns"][(a1 + a2 + r) % len(par["ns"])], 25, 100):
                    random = (a1 + a2 + r + n) % 4 == 0
                    e = {"id": next(ids), "cid": 0, "op": "correlated", "exc": "", "a1": a1, "a2": a2, "r": r,
                         "n": n, "random": random, "shape_ok": True, "binary": True, "ones1": 0, "ones2": 0}
                    try:
                        ds = CorrelatedBernoullilDataset(p1=a1 / PD, p2=a2 / PD, rho=r / PD, n=n)
                        d = np.asarray(ds.sample(random=random, rng=np.random.default_rng(seed + k)))
                        if k % 3 == 0 and d.flags.writeable:
                            d[...] = -7                          # the caller recodes its sample in place ...
                            d = np.asarray(ds.sample(random=random, rng=np.random.default_rng(seed + k + 1)))
                        e["shape_ok"] = bool(d.shape == (2, n))
                        e["binary"] = bool(np.isin(d, [0, 1]).all())
                        if d.shape == (2, n):
                            e["ones1"], e["ones2"] = int(d[0].sum()), int(d[1].sum())
                    except ValueError:
                        e["exc"] = "ValueError"
                    except Exception as ex:  # noqa
                        e["exc"] = type(ex).__name__
                    evs.append(e)
    return evs


def normal_events(ids, tier):
    from score_analysis.experimental import NormalDataset
    evs = []
    zs = [-4.0, -2.5, -1.0, -0.5, 0.0, 0.25, 1.0, 2.0, 3.5]
    params = [(1.0, -1.0, 1.0, 1.0), (3.0, None, 3.75, 3.0), (0.5, -2.0, 0.5, 2.0), (-1.0, 2.0, 2.0, 0.25)]
    def measure(ds, mp, sp, sn, e):
        mun = ds.mu_neg
        # thresholds as float64, or as float32 (all of these are exactly representable in float32)
        tdt = np.float32 if e["id"] % 2 and all(float(np.float32(mp + z * sp)) == mp + z * sp and
                                                 float(np.float32(mun + z * sn)) == mun + z * sn for z in zs) else float
        e["thr_dtype"] = np.dtype(tdt).name
        e["fnr6"] = [fx6(x) for x in ds.fnr(np.array([mp + z * sp for z in zs], dtype=tdt))]
        e["fpr6"] = [fx6(x) for x in ds.fpr(np.array([mun + z * sn for z in zs], dtype=tdt))]
        if tdt is np.float32:
            # with float32 thresholds, too, rates in the far tails stay strictly inside (0, 1) and invert back
            for z_, fn_, inv_, m_, s_ in ((-9.0, ds.fnr, ds.threshold_at_fnr, mp, sp), (6.0, ds.fnr, ds.threshold_at_fnr, mp, sp),
                                          (9.0, ds.fpr, ds.threshold_at_fpr, mun, sn), (-6.0, ds.fpr, ds.threshold_at_fpr, mun, sn)):
                t_ = m_ + z_ * s_
                if float(np.float32(t_)) != t_:
                    continue
                v = float(np.asarray(fn_(np.array([t_], dtype=np.float32)))[0])
                if not (0.0 < v < 1.0 and abs(float(inv_(v)) - t_) < 1e-4 * s_):
                    raise AssertionError(f"float32 threshold in the far tail (z={z_}): rate={v!r}")
        # round trips, relative in the tails: compare r with fnr(threshold_at_fnr(r)) scaled
        rates = [0.5, 0.1, 0.9, 1e-3, 1e-6, 1e-9, 1e-12, 1 - 1e-6]
        rt = []
        for r_ in rates:
            scale = 1e6 / r_ if r_ < 1e-3 else 1e6
            f1 = ds.fnr(ds.threshold_at_fnr(r_))
            f2 = ds.fpr(ds.threshold_at_fpr(r_))
            rt.append([int(round(r_ * scale)), int(round(float(f1) * scale)), int(round(float(f2) * scale))])
        e["rt"] = rt
        ok = True
        for kw in ({"fnr": np.array(rates)}, {"fpr": np.array(rates)}):
            c = ds.roc(**kw)
            ok = ok and np.allclose(ds.fnr(c.thresholds), c.fnr, rtol=1e-9, atol=0) \
                and np.allclose(ds.fpr(c.thresholds), c.fpr, rtol=1e-9, atol=0) \
                and len(c.thresholds) == len(rates)
            given = c.fnr if "fnr" in kw else c.fpr
            ok = ok and np.allclose(given, np.array(rates), rtol=1e-6, atol=0)
            t2 = ds.threshold_at_fnr(np.array(rates)) if "fnr" in kw else ds.threshold_at_fpr(np.array(rates))
            ok = ok and np.array_equal(np.asarray(c.thresholds), np.asarray(t2))
        e["roc_ok"] = bool(ok)
        e["scalar_ok"] = bool(isinstance(ds.fnr(0.3), float) and isinstance(ds.fpr(0.3), float)
                              and isinstance(ds.threshold_at_fnr(0.3), float)
                              and isinstance(ds.threshold_at_fpr(0.3), float)
                              and np.asarray(ds.fnr(np.zeros((2, 3)))).shape == (2, 3))
        errs = 0
        for kw in ({}, {"fnr": np.array([0.1]), "fpr": np.array([0.1])}):
            try:
                ds.roc(**kw)
            except ValueError:
                errs += 1
        e["roc_errors_ok"] = errs == 2

    def blank(history):
        return {"id": next(ids), "cid": 0, "op": "normal", "exc": "", "z6": [int(z * 1e6) for z in zs],
                "fnr6": [], "fpr6": [], "rt": [], "roc_ok": True, "scalar_ok": True, "roc_errors_ok": True,
                "history": history}

    for k, (mp, mn, sp, sn) in enumerate(params):
        for sc in ("pos", "neg"):
            e = blank("fresh")
            try:
                ds = NormalDataset(mu_pos=mp, mu_neg=mn, sigma_pos=sp, sigma_neg=sn, score_class=sc)
                measure(ds, mp, sp, sn, e)
            except Exception as ex:  # noqa
                e["exc"] = f"{type(ex).__name__}: {ex}"[:150]
                ds = None
            evs.append(e)
            if ds is None:
                continue
            # history: the public fields of the SAME (already queried) object are re-assigned, as in a
            # parameter sweep, and the analytic helpers are queried again
            mp2, mn2, sp2, sn2 = params[(k + 1) % len(params)]
            mn2 = -mp2 if mn2 is None else mn2
            e = blank("fields_reassigned")
            try:
                ds.mu_pos, ds.mu_neg, ds.sigma_pos, ds.sigma_neg = mp2, mn2, sp2, sn2
                measure(ds, mp2, sp2, sn2, e)
            except Exception as ex:  # noqa
                e["exc"] = f"{type(ex).__name__}: {ex}"[:150]
            evs.append(e)
    return evs


def from_metrics_events(ids, seed):
    from score_analysis.experimental import NormalDataset
    evs = []
    cases = [((1, 10), (1, 20), 5, 7), ((1, 100), (3, 100), 10, 10), ((1, 3), (2, 7), 1, 4),
             ((1, 1000), (1, 2), 3, 50), ((9, 10), (1, 10), 6, 1), ((1, 7), (1, 7), 7, 7)]
    for (fq, pq, fs, ps) in cases:
        for (sp, sn) in ((1.0, 1.0), (2.0, 0.5)):
            e = {"id": next(ids), "cid": 0, "op": "from_metrics", "exc": "", "fnr_q": list(fq), "fpr_q": list(pq),
                 "fs": fs, "ps": ps, "fnr_req": 0, "fpr_req": 0, "fnr0": 0, "fpr0": 0, "n": 0, "ppos6": 0,
                 "sample_total": 0, "sample_n": 0, "sample_sc": "", "sc": ""}
            try:
                fnr, fpr = fq[0] / fq[1], pq[0] / pq[1]
                if (fs + ps) % 2:
                    # history: an earlier model from the same arguments had its public fields re-assigned
                    old = NormalDataset.from_metrics(fnr=fnr, fpr=fpr, fnr_support=fs, fpr_support=ps,
                                                     sigma_pos=sp, sigma_neg=sn)
                    old.mu_pos, old.mu_neg, old.n, old.p_pos = old.mu_pos + 1.0, old.mu_neg - 2.0, 50, 0.5
                    e["history"] = "earlier_model_modified"
                ds = NormalDataset.from_metrics(fnr=fnr, fpr=fpr, fnr_support=fs, fpr_support=ps,
                                                sigma_pos=sp, sigma_neg=sn)
                e["fnr_req"], e["fpr_req"] = fx6(fnr), fx6(fpr)
                e["fnr0"], e["fpr0"] = fx6(ds.fnr(0.0)), fx6(ds.fpr(0.0))
                e["n"], e["ppos6"] = int(ds.n), fx6(ds.p_pos)
                s = ds.sample(rng=np.random.default_rng(seed))
                e["sample_total"], e["sample_n"] = int(len(s.pos) + len(s.neg)), int(ds.n)
                e["sample_sc"], e["sc"] = s.score_class.value, str(getattr(ds.score_class, "value", ds.score_class))
            except Exception as ex:  # noqa
                e["exc"] = f"{type(ex).__name__}: {ex}"[:150]
            evs.append(e)
    # rates that are negative powers of two down to 2^-100: the implied class sizes support * 2^k are exact
    # integers far beyond 64 bits (recorded as exponent / exactness flags)
    for k_ in (40, 62, 63, 64, 70, 100):
        for sup in (1, 3):
            e = {"id": next(ids), "cid": 0, "op": "from_metrics_pow2", "exc": "", "k": k_, "support": sup,
                 "exact_multiple": False, "quotient_is_power_of_two": False, "exponent": -1, "ppos_half": False}
            try:
                ds = NormalDataset.from_metrics(fnr=2.0 ** -k_, fpr=2.0 ** -k_, fnr_support=sup, fpr_support=sup)
                n_ = int(ds.n)
                q_, r_ = divmod(n_, 2 * sup)
                e["exact_multiple"] = bool(r_ == 0 and n_ > 0)
                e["quotient_is_power_of_two"] = bool(q_ > 0 and q_ & (q_ - 1) == 0)
                e["exponent"] = int(q_.bit_length() - 1) if q_ > 0 else -1
                e["ppos_half"] = bool(float(ds.p_pos) == 0.5)
            except Exception as ex:  # noqa
                e["exc"] = f"{type(ex).__name__}: {ex}"[:150]
            evs.append(e)
    return evs


def run(ctx: core.Ctx):
    core.import_repo()
    par = TIERS[ctx.tier]
    tables = core.VERIF / "gen" / "tables.json"
    ctx.model("MC_C20", MC_CFG.format(NMax=par["NMax"]))
    ids = iter(range(1, 10**9))
    evs = bernoulli_events(par, ids, ctx.seed) + correlated_events(par, ids, ctx.seed) \
        + normal_events(ids, ctx.tier) + from_metrics_events(ids, ctx.seed)
    for e in evs:
        if e["op"] == "correlated" and e["r"] != 0 and 0 < e["a1"] < PD and 0 < e["a2"] < PD:
            ctx.nontrivial.add((e["a1"], e["a2"], e["r"], e["n"]))
    ctx.sample([e for e in evs if e["op"] == "correlated"][7])
    ctx.sample([e for e in evs if e["op"] == "normal"][0])
    ctx.judge("Trace_C20", evs, batch=3000, env_extra={"TABLES_FILE": str(tables)})
    ctx.rule = ("p, p1, p2, rho in twentieths, n from a size list (random and non-random); normal "
                "models on a z grid, round trips down to rate 1e-12, roc(), from_metrics(), sample(); "
                "non-trivial = correlated pair with rho != 0 and non-degenerate marginals")
    ctx.exhaustive = ctx.tier == "thorough"
    ctx.extra["constants"] = {"NMax": par["NMax"], "ns": par["ns"]}
    ctx.assumptions = ["the analytic half is a fixed-point trace check against a tabulated Phi (1e-6) and "
                       "relative round trips; TLA+ adds bookkeeping there, the discrete half is exact",
                       "cases where a joint probability is exactly 0 may raise or not (floating point)"]
    return ctx.finish()


def replay(ctx: core.Ctx, body):
    core.import_repo()
    tables = core.VERIF / "gen" / "tables.json"
    par = TIERS["thorough"]
    ids = iter(range(1, 10**9))
    evs = bernoulli_events(par, ids, ctx.seed) + correlated_events(par, ids, ctx.seed) \
        + normal_events(ids, "thorough") + from_metrics_events(ids, ctx.seed)
    ctx.judge("Trace_C20", evs, env_extra={"TABLES_FILE": str(tables)})
    return ctx.finish()
