"""C11 - bootstrap samples are well-formed, unbiased resamples of their source.

Leg A: TLC on MC_C11: Scores.bootstrap_sample with one action per RNG call;
every outcome of every call is explored on small sources (all sampling modes,
stratification, the dynamic switch lowered to 2).
Leg B (spec -> code): EVERY finished run of the model (src, cfg, outcomes) is
replayed: numpy's global RNG functions are scripted to return exactly the
outcomes TLC chose, so every RNG state of the small model is driven through the
real code, including the rare branches (corrections firing).
Independent traces (code -> spec): seeded runs of the real RNG, all modes incl.
smoothing, sizes below and above the single-pass switch, histories of M samples.
Leg C: TLC validates draws and samples (Trace_C11).
"""
from __future__ import annotations

import json
import re

import numpy as np

from .. import core, gamma, rngshim, tlaval
from .. import scoresdrv as sd

PROP = "C11"
MC_CFG = """SPECIFICATION Spec
CONSTANTS
  Sources <- {Sources}
  Cap = 2
  SinglePassThreshold = 2
INVARIANT InvWellFormed
INVARIANT InvTotal
INVARIANT InvStrata
INVARIANT InvEasyStrata
INVARIANT InvProportion
INVARIANT InvNoCallLeft
CHECK_DEADLOCK FALSE
"""
TIERS = {"quick": dict(Sources="SrcQuick", hist=3, M=700, big=1),
         "thorough": dict(Sources="SrcThorough", hist=10, M=3000, big=4)}
G = gamma.ident()
JUDGE_CONSTS = "CONSTANTS\n  SinglePassThreshold = {th}\n"


def rec_obj(o):
    return {"pos": [int(x) for x in o["pos"]], "neg": [int(x) for x in o["neg"]], "ep": int(o["ep"]),
            "en": int(o["en"]), "sc": o["sc"], "ec": o["ec"]}


def set_switch(th):
    import score_analysis.group_scores as gs
    import score_analysis.scores as sc
    sc.SINGLE_PASS_SAMPLE_THRESHOLD = th
    gs.SINGLE_PASS_SAMPLE_THRESHOLD = th


def cfg_real(c, smooth=False):
    from fractions import Fraction
    from score_analysis import BootstrapConfig
    ratio = c["ratio"][0] / c["ratio"][1] if c["method"] == "proportion" else None
    if ratio is not None and c.get("ratio_form") == "fraction":
        ratio = Fraction(c["ratio"][0], c["ratio"][1])          # an exact ratio: exactly floor(ratio * n) draws
    return BootstrapConfig(sampling_method=c["method"], smoothing=smooth, ratio=ratio,
                           stratified_sampling=None if c["strat"] == "none" else c["strat"])


GAMS = [gamma.ident(), gamma.ident_int(), gamma.big_int(), gamma.ident_u8(), gamma.affine(0.1, 0.3)]


def run_events(src_a, c, ids, cid, beh, script=None, np_seed=None, smooth=False, accumulate=False,
               src_obj=None, inv=None, G=G, randint_max=False):
    """One bootstrap_sample call observed through the RNG shim."""
    evs = []

    def ev(op, **kw):
        e = {"id": next(ids), "cid": cid, "beh": beh, "op": op, "exc": "", "conc": G.name}
        e.update(kw)
        evs.append(e)
        return e

    ev("Start", src=rec_obj(src_a), cfg={"method": c["method"], "strat": c["strat"],
                                         "ratio": list(c["ratio"]), "smooth": smooth})
    src = src_obj if src_obj is not None else sd.build(src_a, G)
    inv = inv or sd.inv_map(G, -2, 300)
    built = {"sample": rec_obj({"pos": [], "neg": [], "ep": 0, "en": 0, "sc": "pos", "ec": "pos"}),
             "accumulate": accumulate, "exc": ""}
    if np_seed is not None:
        np.random.seed(np_seed)
    with rngshim.active(script, randint_max) as sh:
        try:
            smp = src.bootstrap_sample(cfg_real(c, smooth))
            if smooth:
                # noise makes the values unrelated to the source: report dense ranks
                vals = sorted(set(float(x) for x in list(smp.pos) + list(smp.neg)))
                rk = {v: i for i, v in enumerate(vals)}
                srcv = [float(x) for x in list(src.pos) + list(src.neg)] or [0.0]
                lo_, hi_ = min(srcv), max(srcv)
                B_ = 3.0 * (hi_ - lo_ + 1.0)
                built["smooth_near_source"] = bool(all(lo_ - B_ <= v <= hi_ + B_ for v in vals))
                built["sample"] = {"pos": [rk[float(x)] for x in smp.pos], "neg": [rk[float(x)] for x in smp.neg],
                                   "ep": int(smp.nb_easy_pos), "en": int(smp.nb_easy_neg),
                                   "sc": smp.score_class.value, "ec": smp.equal_class.value}
            else:
                built["sample"] = sd.alpha_obj(smp, inv)
        except rngshim.ScriptMismatch as ex:
            built["exc"] = "ScriptMismatch: " + str(ex)
        except Exception as ex:  # noqa
            built["exc"] = sd.exc_str(ex)
    if built["exc"].startswith("ScriptMismatch") and script is not None:
        # the implementation's RNG calls are not the modelled sequence (conformance drift, reported by the
        # judge as DRIFT): the scripted outcome cannot be replayed - observe a run of the real generator instead
        note = {"id": next(ids), "cid": cid, "beh": beh, "op": "ScriptDrift", "exc": "", "conc": G.name,
                "why": built["exc"][:160]}
        seed_ = (hash(json.dumps(script)) % 100000) if script else 0
        return [note] + run_events(src_a, c, ids, cid, beh, script=None, np_seed=seed_, smooth=smooth,
                                   accumulate=accumulate, src_obj=src_obj, inv=inv, G=G)
    for d in sh.calls:
        ev("Draw", **d)
    ev("Built", **built)
    return evs


def callable_events(ids, cid):
    """sampling_method given as a callable, in every form a callable can take: it must be called once,
    with the source, and its return value IS the sample."""
    import dataclasses
    import functools
    from score_analysis import BootstrapConfig, Scores
    src = Scores([1.0, 2.0, 3.0], [0.0, 1.5], nb_easy_pos=1)
    other = Scores([2.0, 2.0], [1.5])
    log = []

    def fn(s, tag="fn"):
        log.append((tag, s))
        return other

    class Obj:
        def __call__(self, s):
            return fn(s, "obj")

        def meth(self, s):
            return fn(s, "meth")

    @dataclasses.dataclass
    class Param:                       # eq=True, not frozen: instances are unhashable
        k: int = 1

        def __call__(self, s):
            return fn(s, "dataclass")

    class EqNoHash:
        __hash__ = None

        def __eq__(self, o):
            return self is o

        def __call__(self, s):
            return fn(s, "eq_no_hash")

    forms = {"function": fn, "lambda": lambda s: fn(s, "lambda"), "partial": functools.partial(fn, tag="partial"),
             "callable_object": Obj(), "bound_method": Obj().meth, "dataclass_instance": Param(3),
             "eq_without_hash": EqNoHash()}
    evs = []
    for form, f in forms.items():
        e = {"id": next(ids), "cid": cid, "beh": cid, "op": "Callable", "exc": "", "conc": "ident", "form": form,
             "ncalls": 0, "called_with_source": False, "returned_as_is": False}
        del log[:]
        try:
            for strat in (None, "by_label"):
                smp = src.bootstrap_sample(BootstrapConfig(sampling_method=f, stratified_sampling=strat))
                e["returned_as_is"] = bool(smp is other)
            e["ncalls"] = len(log)
            e["called_with_source"] = all(x[1] is src for x in log)
        except Exception as ex:  # noqa
            e["exc"] = sd.exc_str(ex)
        evs.append(e)
    return evs


_STATE = re.compile(r"^State \d+:\n", re.M)


def done_states(dump_path):
    txt = open(dump_path).read()
    out = []
    for blk in _STATE.split(txt):
        if "/\\" not in blk or "ep |-> -1" in blk.split("/\\ draws")[0].split("/\\ sample")[-1]:
            continue
        st = tlaval.parse_state(blk)
        if st["sample"]["ep"] >= 0:
            out.append(st)
    return out


def run(ctx: core.Ctx):
    core.import_repo()
    par = TIERS[ctx.tier]
    dump = ctx.work / "states"
    ctx.model("MC_C11", MC_CFG.format(**par), args=["-dump", str(dump)])
    states = done_states(str(dump) + ".dump")
    ids = iter(range(1, 10**9))
    cases = []
    # ---- spec -> code: every finished run of the model, RNG scripted ---------------
    ev_small = []
    set_switch(2)
    try:
        # history across OBJECTS: the first 'dynamic' calls of the process are made on sources at or above
        # the switch (-> single pass); every later source resolves 'dynamic' on its OWN class sizes, whatever
        # was sampled before with an equal configuration (seed C11-11: a memo keyed by the configuration)
        for strat_ in ("none", "by_label"):
            st = next((s_ for s_ in states if s_["cfg"]["method"] == "dynamic" and s_["cfg"]["strat"] == strat_
                       and len(s_["src"]["pos"]) >= 2 and len(s_["src"]["neg"]) >= 2), None)
            if st is not None:
                c = {"method": "dynamic", "strat": strat_, "ratio": list(st["cfg"]["ratio"])}
                cid = len(cases)
                cases.append({"kind": "seeded_small", "src": rec_obj(st["src"]), "cfg": c, "np_seed": ctx.seed,
                              "history": "first dynamic call of the process"})
                ev_small += run_events(st["src"], c, ids, cid, cid, np_seed=ctx.seed)
                ctx.extra["dynamic_first_on_source_above_switch"] = True
        for st in states:
            c = {"method": st["cfg"]["method"], "strat": st["cfg"]["strat"], "ratio": list(st["cfg"]["ratio"])}
            script = [list(d) if isinstance(d, tuple) else d for d in st["draws"]]
            cid = len(cases)
            cases.append({"kind": "tlc_run", "src": rec_obj(st["src"]), "cfg": c, "draws": script})
            evs_ = run_events(st["src"], c, ids, cid, cid, script=script, G=GAMS[(cid + ctx.seed) % len(GAMS)])
            ev_small += evs_
            ctx.nontrivial.add(json.dumps(cases[-1], sort_keys=True))
            if any(e_.get("fn") == "randint" for e_ in evs_):
                # the same run once more, every randint call answered with the largest value of the range
                # the implementation actually asked for (a legal RNG outcome of that call)
                cid = len(cases)
                cases.append({"kind": "tlc_run", "src": rec_obj(st["src"]), "cfg": c, "draws": script, "randint_max": True})
                ev_small += run_events(st["src"], c, ids, cid, cid, script=script, randint_max=True)
        # seeded small runs under the lowered switch (code -> spec on the same model)
        rnd = np.random.RandomState(ctx.seed + 5)
        for k in range(300 if ctx.tier == "quick" else 3000):
            st = states[int(rnd.randint(len(states)))]
            c = {"method": st["cfg"]["method"], "strat": st["cfg"]["strat"], "ratio": list(st["cfg"]["ratio"])}
            cid = len(cases)
            cases.append({"kind": "seeded_small", "src": rec_obj(st["src"]), "cfg": c, "np_seed": ctx.seed + k})
            ev_small += run_events(st["src"], c, ids, cid, cid, np_seed=ctx.seed + k, G=GAMS[k % len(GAMS)])
    finally:
        set_switch(100)
    ctx.extra["tlc_runs_replayed"] = len(states)
    # ---- code -> spec: real RNG, library switch at 100, histories ------------------
    ev_big = []
    rnd = np.random.RandomState(ctx.seed + 17)
    modes = [("replacement", "none", False), ("replacement", "by_label", False), ("single_pass", "none", False),
             ("single_pass", "by_label", False), ("dynamic", "none", False), ("replacement", "none", True),
             ("dynamic", "by_label", True), ("proportion", "none", False)]
    for h in range(par["hist"]):
        npos, nneg = [(12, 6), (7, 14), (9, 9)][h % 3]
        src_a = {"pos": sorted(int(x) for x in rnd.randint(0, 40, npos)),
                 "neg": sorted(int(x) for x in rnd.randint(0, 40, nneg)),
                 "ep": int(rnd.randint(0, 4)), "en": int(rnd.randint(0, 4)),
                 "sc": ["pos", "neg"][h % 2], "ec": ["pos", "neg"][(h // 2) % 2]}
        for (method, strat, smooth) in modes:
            c = {"method": method, "strat": strat, "ratio": [1, 2]}
            cid = len(cases)
            unbiased = method != "proportion" and not smooth
            M = par["M"] if unbiased else 40
            cases.append({"kind": "history", "src": src_a, "cfg": c, "smooth": smooth, "M": M,
                          "np_seed": ctx.seed + 1000 * h})
            Gh = [gamma.ident_u8(), gamma.ident_int(), G][h % 3] if smooth else G    # smoothing integer-typed scores
            src = sd.build(src_a, Gh)
            inv = sd.inv_map(Gh, -2, 300)
            np.random.seed(ctx.seed + 1000 * h + len(ev_big) % 997)
            for k in range(M):
                ev_big += run_events(src_a, c, ids, cid, cid, smooth=smooth, accumulate=True,
                                     src_obj=src, inv=inv, G=Gh)
            ev_big.append({"id": next(ids), "cid": cid, "beh": cid, "op": "EndHistory", "exc": "",
                           "conc": Gh.name, "m": M, "unbiased": unbiased})      # (same batch key as the history)
    # sizes above the single-pass switch (dynamic -> single pass, Poisson multiplicities)
    for b in range(par["big"]):
        src_a = {"pos": sorted(int(x) for x in rnd.randint(0, 250, 130)),
                 "neg": sorted(int(x) for x in rnd.randint(0, 250, 115)),
                 "ep": int(rnd.randint(0, 30)), "en": int(rnd.randint(0, 30)), "sc": "pos", "ec": "pos"}
        for method, strat in (("dynamic", "none"), ("dynamic", "by_label"), ("single_pass", "none")):
            c = {"method": method, "strat": strat, "ratio": [1, 2]}
            cid = len(cases)
            cases.append({"kind": "above_switch", "src": src_a, "cfg": c})
            src = sd.build(src_a, G)
            inv = sd.inv_map(G, -2, 300)
            np.random.seed(ctx.seed + 31 * b)
            for k in range(6):
                ev_big += run_events(src_a, c, ids, cid, cid, src_obj=src, inv=inv)
    # proportion sampling with a ratio below 1/n (the at-least-one rule) on class sizes at which
    # fl(fl(1/n) * n) != 1 (49, 98, 103, 107), and a few ordinary ones
    for b, (npos, nneg) in enumerate([(49, 98), (103, 107), (50, 100), (7, 161)]):
        src_a = {"pos": sorted(int(x) for x in rnd.randint(0, 250, npos)),
                 "neg": sorted(int(x) for x in rnd.randint(0, 250, nneg)),
                 "ep": int(rnd.randint(0, 3)), "en": 0, "sc": ["pos", "neg"][b % 2], "ec": "pos"}
        for ratio in ([1, 1000], [1, 150], [1, 40]):
            c = {"method": "proportion", "strat": "none", "ratio": ratio}
            cid = len(cases)
            cases.append({"kind": "many_easy", "src": src_a, "cfg": c, "np_seed": ctx.seed + 5 * b})
            src = sd.build(src_a, G)
            inv = sd.inv_map(G, -2, 300)
            np.random.seed(ctx.seed + 5 * b)
            for k in range(3):
                ev_big += run_events(src_a, c, ids, cid, cid, src_obj=src, inv=inv)
    # exact (Fraction) ratios whose float image times n falls just below an integer (0.29 * 100 = 28.999...)
    for b, ratio in enumerate([[29, 100], [57, 100], [7, 25]]):
        src_a = {"pos": sorted(int(x) for x in rnd.randint(0, 250, 100)), "neg": sorted(int(x) for x in rnd.randint(0, 250, 100)),
                 "ep": 0, "en": 0, "sc": "pos", "ec": ["pos", "neg"][b % 2]}
        c = {"method": "proportion", "strat": "none", "ratio": ratio, "ratio_form": "fraction"}
        cid = len(cases)
        cases.append({"kind": "many_easy", "src": src_a, "cfg": c, "np_seed": ctx.seed + 3 * b})
        src = sd.build(src_a, G)
        inv = sd.inv_map(G, -2, 300)
        np.random.seed(ctx.seed + 3 * b)
        for k in range(2):
            ev_big += run_events(src_a, c, ids, cid, cid, src_obj=src, inv=inv)
    # few scored samples, many easy ones: 'dynamic' must still resolve on the SCORED class sizes
    for b in range(2):
        src_a = {"pos": sorted(int(x) for x in rnd.randint(0, 40, 7)), "neg": sorted(int(x) for x in rnd.randint(0, 40, 5)),
                 "ep": 300, "en": 400, "sc": ["pos", "neg"][b], "ec": ["neg", "neg"][b]}
        for method, strat in (("dynamic", "none"), ("dynamic", "by_label"), ("replacement", "by_label")):
            c = {"method": method, "strat": strat, "ratio": [1, 2]}
            cid = len(cases)
            cases.append({"kind": "many_easy", "src": src_a, "cfg": c, "np_seed": ctx.seed + 77 * b})
            src = sd.build(src_a, G)
            inv = sd.inv_map(G, -2, 300)
            np.random.seed(ctx.seed + 77 * b)
            for k in range(8):
                ev_big += run_events(src_a, c, ids, cid, cid, src_obj=src, inv=inv)
    ev_small += callable_events(ids, len(cases))
    cases.append({"kind": "callable"})
    ctx.sample([e for e in ev_small if e["cid"] == len(states) // 2])
    ctx.judge("Trace_C11", ev_small, cases=cases, tag="small", batch=4000,
              consts_cfg=JUDGE_CONSTS.format(th=2))
    ctx.judge("Trace_C11", ev_big, cases=cases, tag="big", batch=6000,
              consts_cfg=JUDGE_CONSTS.format(th=100))
    ctx.rule = ("every finished run of the bounded model (all RNG outcomes) replayed with a scripted RNG; "
                "seeded runs of the same small sources; histories of M seeded samples per mode on sources "
                "of 15-20 scores; sources above the single-pass switch; distinct = distinct TLC runs")
    ctx.exhaustive = True
    ctx.extra["constants"] = par
    ctx.assumptions = ["distributional claims are decided structurally (the draw procedure is the modelled "
                       "one, or DRIFT is reported) plus an 8-sigma aggregate test, not by a proof about "
                       "NumPy's generators", "the shim serves choice(array) by drawing indices (same stream)"]
    return ctx.finish()


def replay(ctx: core.Ctx, body):
    core.import_repo()
    c = body["case"]
    ids = iter(range(1, 10**9))
    if c["kind"] in ("tlc_run", "seeded_small"):
        set_switch(2)
        try:
            evs = run_events(c["src"], c["cfg"], ids, 0, 0, script=c.get("draws"), np_seed=c.get("np_seed"),
                             randint_max=c.get("randint_max", False))
        finally:
            set_switch(100)
        ctx.judge("Trace_C11", evs, cases=[c], consts_cfg=JUDGE_CONSTS.format(th=2))
    else:
        evs = []
        if c["kind"] == "many_easy":
            c = dict(c, M=8)
        src = sd.build(c["src"], G)
        inv = sd.inv_map(G, -2, 300)
        np.random.seed(c.get("np_seed", 0))
        M = c.get("M", 6)
        for k in range(M):
            evs += run_events(c["src"], c["cfg"], ids, 0, 0, smooth=c.get("smooth", False),
                              accumulate=c["kind"] == "history", src_obj=src, inv=inv)
        if c["kind"] == "history":
            evs.append({"id": next(ids), "cid": 0, "beh": 0, "op": "EndHistory", "exc": "", "conc": "ident",
                        "m": M, "unbiased": c["cfg"]["method"] != "proportion" and not c.get("smooth")})
        ctx.judge("Trace_C11", evs, cases=[c], consts_cfg=JUDGE_CONSTS.format(th=100))
    return ctx.finish()
