"""C04 - binary metrics: defining algebra, NaN rule, normal-approximation CIs.

Leg A: TLC on MC_C04 (all 2x2 matrices over a small value set; complements,
range, NaN locus, nesting/mirroring of the fixed-point interval model, scale
invariance of rates as an action property).
Leg B: every matrix is evaluated by score_analysis.metrics.* and by
ConfusionMatrix(binary=True) methods: int and float dtype, stacked shapes
(), (n,), (a,b), and scaled by 1/2, 1e-9 and 4^10 (large counts).
Leg C: TLC validates the recorded rationals / fixed-point limits (Trace_C04).
"""
from __future__ import annotations

import json
import math

import numpy as np

from .. import core, gamma

PROP = "C04"
MC_CFG = """SPECIFICATION Spec
CONSTANTS
  Vals <- {Vals}
  Alphas <- AlphasAll
INVARIANT InvTotals
INVARIANT InvComplements
INVARIANT InvRange
INVARIANT InvNaNLocus
INVARIANT InvCINested
INVARIANT InvCIMirror
PROPERTY ScaleInvariant
POSTCONDITION EmitCases
CHECK_DEADLOCK FALSE
"""
TIERS = {"quick": dict(Vals="ValsQuick"), "thorough": dict(Vals="ValsThorough")}
RATES = ["tpr", "fnr", "tnr", "fpr", "ppv", "fdr", "npv", "for_", "topr", "tonr",
         "accuracy", "error_rate", "tar", "frr", "trr", "far", "acceptance_rate", "rejection_rate"]
CIS = ["tpr", "tnr", "fpr", "fnr", "tar", "trr", "far", "frr"]
BASIC = ["tp", "fn", "fp", "tn", "p", "n", "top", "ton", "pop"]
SCALES = {"1": 1, "half": 0.5, "tiny": 1e-9, "big": 4 ** 10}
CM_NAME = {"accuracy": "accuracy", "error_rate": "error_rate"}


LIM = 1_500_000_000


def fx(x, unit):
    """fixed point, clamped so that TLC's 32-bit integers cannot overflow."""
    x = float(x)
    if x != x:
        return None
    v = x * unit
    if v >= LIM or v == math.inf:
        return LIM
    if v <= -LIM:
        return -LIM
    return int(round(v))


def ci_rec(lo_f, hi_f, unit, tiny=False):
    """[lo, hi, isnan, mid, half]"""
    lo, hi = fx(lo_f, unit), fx(hi_f, unit)
    if lo is None or hi is None:
        return [0, 0, 1, 0, 0]
    if tiny:
        return [0, 0, 0, 0, 0]
    mid = fx((float(lo_f) + float(hi_f)) / 2.0, unit)
    half = fx((float(hi_f) - float(lo_f)) / 2.0, unit)
    return [lo, hi, 0, mid if mid is not None else LIM, half if half is not None else LIM]


TINY = {"1e-9": 1e-9, "1e-12": 1e-12, "1e-15": 1e-15}


def alpha_value(a):
    return TINY[a] if a in TINY else int(a) / 1000.0


def eval_block(mats, scale, via, dtype, alphas):
    """mats: int array (..., 2, 2) in base units.  Returns dict of result arrays."""
    if dtype == "strict":
        # the caller runs NumPy with floating-point errors raised instead of warned about: an undefined
        # rate is still NaN (by masking), not an exception
        with np.errstate(all="raise"):
            return eval_block(mats, scale, via, "int", alphas)
    if via == "cm2":
        return eval_block_two_class(mats, scale, dtype, alphas)
    masked = dtype == "masked"              # the matrix handed over as a numpy masked array (nothing masked)
    if masked:
        dtype = "int"
    from score_analysis import ConfusionMatrix, metrics
    f = SCALES[scale]
    arr = np.asarray(mats)
    if scale in ("half", "tiny") or dtype == "float":
        arr = arr.astype(float) * f
    else:
        arr = arr.astype(np.int64) * int(f)
    out = {"rates": {}, "ci": {}, "basic": {}}
    if masked:
        arr = np.ma.masked_array(arr)
    cm = ConfusionMatrix(matrix=arr, binary=True) if via == "cm" else None

    def call(name, *a, **k):
        if cm is not None:
            return getattr(cm, name)(*a, **k)
        return getattr(metrics, name)(arr, *a, **k)

    for r in RATES:
        if via == "metrics" and not hasattr(metrics, r):
            raise AssertionError(f"metrics.{r} missing")
        out["rates"][r] = call(r)
    for b in BASIC:
        out["basic"][b] = call(b)
    for c in CIS:
        # alpha by keyword, or positionally (float variants)
        out["ci"][c] = {a: (call(c + "_ci", alpha_value(a)) if dtype == "float" else
                            call(c + "_ci", alpha=alpha_value(a))) for a in alphas}
    return out


MIRROR = {"tpr": "tnr", "fnr": "fpr", "tnr": "tpr", "fpr": "fnr", "ppv": "npv", "npv": "ppv", "fdr": "for_",
          "for_": "fdr", "topr": "tonr", "tonr": "topr", "tar": "trr", "trr": "tar", "frr": "far", "far": "frr",
          "acceptance_rate": "rejection_rate", "rejection_rate": "acceptance_rate",
          "tp": "tn", "tn": "tp", "fn": "fp", "fp": "fn", "p": "n", "n": "p", "top": "ton", "ton": "top"}


def eval_block_two_class(mats, scale, dtype, alphas):
    """The same matrices as a (possibly stacked) TWO-CLASS, non-binary ConfusionMatrix: per-class results
    have one more axis; class 0 as the positive class is the binary matrix itself, class 1 as the
    positive class is its mirror image (tpr <-> tnr, ...).  Returned: class-0 values, after checking
    that the class-1 values are bitwise the mirrored class-0 metric."""
    from score_analysis import ConfusionMatrix
    f = SCALES[scale]
    arr = np.asarray(mats)
    arr = arr.astype(float) * f if (scale in ("half", "tiny") or dtype == "float") else arr.astype(np.int64) * int(f)
    cm = ConfusionMatrix(matrix=arr, classes=["c0", "c1"])
    out = {"rates": {}, "ci": {}, "basic": {}}
    both = {}
    for r in RATES + BASIC:
        if r in ("accuracy", "error_rate", "pop"):
            v = np.asarray(getattr(cm, r)())
            (out["rates"] if r in RATES else out["basic"])[r] = v if v.ndim else v[()]
            continue
        v = np.asarray(getattr(cm, r)())
        if v.shape != arr.shape[:-2] + (2,):
            raise AssertionError(f"per-class {r}: shape {v.shape}")
        both[r] = v
        (out["rates"] if r in RATES else out["basic"])[r] = v[..., 0] if v[..., 0].ndim else v[..., 0][()]
    for r, v in both.items():
        if not np.array_equal(v[..., 1], both[MIRROR[r]][..., 0], equal_nan=True):
            raise AssertionError(f"class 1 as positive: {r} is not the mirrored {MIRROR[r]}")
    for c in CIS:
        out["ci"][c] = {}
        for a in alphas:
            v = np.asarray(getattr(cm, c + "_ci")(alpha=alpha_value(a)))
            if v.shape != arr.shape[:-2] + (2, 2):
                raise AssertionError(f"per-class {c}_ci: shape {v.shape}")
            w = np.asarray(getattr(cm, MIRROR[c] + "_ci")(alpha=alpha_value(a)))
            if not np.array_equal(v[..., 1, :], w[..., 0, :], equal_nan=True):
                raise AssertionError(f"class 1 as positive: {c}_ci is not the mirrored {MIRROR[c]}_ci")
            out["ci"][c][a] = v[..., 0, :]
    return out


def events(cases, alphas, ids, tier):
    evs = []
    M = np.array([[[c[0], c[1]], [c[2], c[3]]] for c in cases], dtype=np.int64)   # (n,2,2)
    n = len(cases)
    side = int(math.isqrt(n))
    variants = []
    for scale in SCALES:
        for via in ("metrics", "cm"):
            for dtype in ("int", "float"):
                if scale in ("half", "tiny") and dtype == "int":
                    continue
                variants.append((scale, via, dtype))
    variants += [("1", "cm", "masked"), ("1", "metrics", "strict"), ("1", "cm", "strict"), ("1", "cm2", "int"), ("half", "cm2", "float")]
    for (scale, via, dtype) in variants:
        unit = 10**9 if scale == "big" else 10**6
        blocks = [("(n,)", M, (n,))]
        if side * side == n:
            blocks.append(("(a,b)", M.reshape(side, side, 2, 2), (side, side)))
        # leading shapes with two / three different dimensions (a prefix of the cases that factorises)
        a2 = max(2, side - 1)
        b2 = n // a2
        if b2 >= 2 and b2 != a2:
            blocks.append(("(a,b)'", M[:a2 * b2].reshape(a2, b2, 2, 2), (a2, b2)))
        b3 = max(2, (n // 2) // 3)
        if 2 * b3 * 3 <= n and b3 != 3:
            blocks.append(("(a,b,c)", M[:2 * b3 * 3].reshape(2, b3, 3, 2, 2), (2, b3, 3)))
        for shape_name, block, lead in blocks:
            try:
                res = eval_block(block, scale, via, dtype, alphas)
                exc = ""
            except Exception as ex:  # noqa
                res, exc = None, f"{type(ex).__name__}: {ex}"[:200]
            for i, c in enumerate(cases[:int(np.prod(lead))]):
                e = {"id": next(ids), "cid": i, "op": "metrics", "exc": exc, "m": list(c),
                     "scale": scale, "via": via, "dtype": dtype, "shape": shape_name,
                     "shape_ok": True, "rates": {}, "basic": [], "ci": {}}
                if res is not None:
                    idx = np.unravel_index(i, lead)
                    ok = True
                    for r in RATES:
                        a = np.asarray(res["rates"][r])
                        ok = ok and a.shape == lead
                        e["rates"][r] = gamma.proj_rat(a[idx], 1000) if a.shape == lead else [0, -1]
                    if scale == "1":
                        bs = []
                        for b in BASIC:
                            a = np.asarray(res["basic"][b])
                            ok = ok and a.shape == lead
                            v = float(a[idx]) if a.shape == lead else -1
                            bs.append(int(v) if v == v and abs(v) < 1e9 and v == int(v) else -1)
                        e["basic"] = bs
                    for cn in CIS:
                        e["ci"][cn] = {}
                        for al in alphas:
                            a = np.asarray(res["ci"][cn][al])
                            if a.shape != lead + (2,):
                                ok = False
                                e["ci"][cn][str(al)] = [0, 0, 1, 0, 0]
                                continue
                            e["ci"][cn][str(al)] = ci_rec(a[idx][0], a[idx][1], unit, scale == "tiny")
                    e["shape_ok"] = bool(ok)
                evs.append(e)
        # scalar (0-d leading shape) calls for a subset of matrices
        step = 1 if tier == "thorough" else 5
        for i in range(0, n, step):
            c = cases[i]
            e = {"id": next(ids), "cid": i, "op": "metrics", "exc": "", "m": list(c),
                 "scale": scale, "via": via, "dtype": dtype, "shape": "()",
                 "shape_ok": True, "rates": {}, "basic": [], "ci": {}}
            try:
                res = eval_block(M[i], scale, via, dtype, alphas)
                ok = True
                for r in RATES:
                    v = res["rates"][r]
                    ok = ok and np.ndim(v) == 0 and not isinstance(v, np.ndarray)
                    e["rates"][r] = gamma.proj_rat(v, 1000)
                if scale == "1":
                    e["basic"] = [int(x) if x == x and abs(x) < 1e9 and x == int(x) else -1 for x in (float(res["basic"][b]) for b in BASIC)]
                for cn in CIS:
                    e["ci"][cn] = {}
                    for al in alphas:
                        a = np.asarray(res["ci"][cn][al])
                        ok = ok and a.shape == (2,)
                        e["ci"][cn][str(al)] = ci_rec(a[0], a[1], unit, scale == "tiny")
                e["shape_ok"] = bool(ok)
            except Exception as ex:  # noqa
                e["exc"] = f"{type(ex).__name__}: {ex}"[:200]
            evs.append(e)
    return evs


def run(ctx: core.Ctx):
    core.import_repo()
    par = TIERS[ctx.tier]
    cases_file = ctx.work / "cases.json"
    env = {"CASES_FILE": cases_file, "TABLES_FILE": core.VERIF / "gen" / "tables.json"}
    ctx.model("MC_C04", MC_CFG.format(**par), env=env, workers=8)
    data = json.loads(cases_file.read_text())
    cases = data["cases"]
    alphas = [str(a) for a in sorted(data["alphas"])] + list(TINY)      # permille keys + tiny levels
    ids = iter(range(1, 10**9))
    evs = events(cases, alphas, ids, ctx.tier)
    for c in cases:
        if 0 in (c[0] + c[1], c[2] + c[3], c[0] + c[2], c[1] + c[3]):
            ctx.nontrivial.add(tuple(c))
    ctx.sample(evs[len(evs) // 2])
    ctx.judge("Trace_C04", evs, cases=cases, batch=1500,
              env_extra={"TABLES_FILE": str(core.VERIF / "gen" / "tables.json")})
    ctx.rule = ("every 2x2 matrix over the value set, evaluated via metrics.* and ConfusionMatrix "
                "methods, int/float dtype, shapes (), (n,), (a,b), scaled by 1, 1/2, 1e-9, 4^10, "
                "alpha in {0.01,0.05,0.1,0.5}; non-trivial = some denominator is zero (NaN locus)")
    ctx.exhaustive = True
    ctx.extra["constants"] = par
    ctx.assumptions = ["z and sqrt from tables generated with the Python standard library; "
                       "half-width checked to ~2e-6 absolute, centre to 1.5e-6",
                       "small-scope: cell values from a small set, plus the 4^10 / 1e-9 / 0.5 scalings"]
    return ctx.finish()


def replay(ctx: core.Ctx, body):
    core.import_repo()
    c = body["case"]
    ids = iter(range(1, 10**9))
    evs = events([c], ["10", "50", "100", "500"] + list(TINY), ids, "thorough")
    ctx.judge("Trace_C04", evs, cases=[c],
              env_extra={"TABLES_FILE": str(core.VERIF / "gen" / "tables.json")})
    return ctx.finish()
