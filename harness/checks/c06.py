"""C06 - EER is a crossing point.

Leg A: TLC on MC_C06 (property satisfiable and as-coded EER admissible on every
tie-free object; a zero EER only via the perfect-separation shortcut, which
comes with an error-free threshold).
Leg B: eer() is called on the real object, on a second affine concretisation and
on the negated object; the matrix the same object reports at the returned
threshold is recorded.  Leg C: TLC validates (Trace_C06).
"""
from __future__ import annotations

import json
from fractions import Fraction

import numpy as np

from .. import core, gamma
from .. import scoresdrv as sd
from .c08 import neg_gamma, negate_obj

PROP = "C06"
MC_CFG = """SPECIFICATION Spec
CONSTANTS
  K = {K}
  MaxP = {MaxP}
  MaxN = {MaxN}
  EasyPairs <- {Easy}
INVARIANT InvSatisfiable
INVARIANT InvCodedAdmissible
INVARIANT InvZeroOnlyWhenSeparated
POSTCONDITION EmitCases
CHECK_DEADLOCK FALSE
"""
TIERS = {"quick": dict(K=5, MaxP=3, MaxN=2, Easy="EasyQuick"),
         "thorough": dict(K=6, MaxP=3, MaxN=3, Easy="EasyThorough")}
AFF = [gamma.affine(2.5, -7.0), gamma.affine(0.1, 0.3), gamma.affine(3.0, 0.125), gamma.affine(1e-3, 1e3)]


def tie_free(o):
    v = list(o["pos"]) + list(o["neg"])
    return len(set(v)) == len(v)


def eer_event(ev, s, o, h, g):
    e = ev("eer", h=h, e=[0, 0], e9=0, e_is_zero=False, t=[0, 0], t6=0, cm=[0, 0, 0, 0])
    try:
        t, ee = s.eer()
        t, ee = float(t), float(ee)
        coarse = g.name.startswith("clustered")     # not an affine image: the value is no small rational
        fr = Fraction(ee).limit_denominator(1000000 if coarse else 5000)
        # (the best rational with denominator <= 10^6 is within 5e-7 of any number)
        e["e"] = [fr.numerator, fr.denominator] if abs(float(fr) - ee) <= (6e-7 if coarse else 1e-8) else [0, 0]
        e["e9"] = int(round(ee * 1e9))
        e["e_is_zero"] = bool(ee == 0.0)
        proj = sd.ThrProjector(g, sorted(set(o["pos"]) | set(o["neg"])))
        ta = proj.abs_coord(t)
        ft = Fraction(ta).limit_denominator(5000)
        e["t"] = [ft.numerator, ft.denominator] if abs(float(ft) - ta) <= 1e-6 and not coarse else [0, 0]
        e["t6"] = int(round(ta * 1e6))
        m = s.cm(t).matrix
        e["cm"] = [int(m[0, 0]), int(m[0, 1]), int(m[1, 0]), int(m[1, 1])]
    except Exception as ex:  # noqa
        e["exc"] = sd.exc_str(ex)


def events_for_case(o, cid, g, g2, ids, relations=True):
    from score_analysis import Scores
    evs = []
    ev = sd.make_ev(evs, ids, cid, g)
    s = sd.new_event(ev, o, g, h=1)
    if s is None:
        return evs
    eer_event(ev, s, o, 1, g)
    if o["ep"] == 0 and o["en"] == 0:
        sg = sd.new_group_event(ev, o, g, h=5, seed=cid)          # the subclass, built from unsorted data
        if sg is not None:
            eer_event(ev, sg, o, 5, g)
    if not relations:
        return evs
    s2 = sd.new_event(ev, o, g2, h=2)
    if s2 is not None:
        eer_event(ev, s2, o, 2, g2)
    on, gn = negate_obj(o), neg_gamma(g)
    e = ev("New", h=3, args=sd.as_args(on), post=dict(sd.EMPTY_POST))
    try:
        s3 = Scores(-np.asarray(s.pos, dtype=float)[::-1], -np.asarray(s.neg, dtype=float)[::-1],
                    nb_easy_pos=o["ep"], nb_easy_neg=o["en"], score_class=on["sc"], equal_class=on["ec"])
        e["post"] = sd.alpha_obj(s3, sd.inv_map(gn))
        eer_event(ev, s3, on, 3, gn)
    except Exception as ex:  # noqa
        e["exc"] = sd.exc_str(ex)
    # history: new easy-sample counts are assigned to the (already queried) first object
    ep2, en2 = [(0, 0), (4, 1), (1, 6), (3, 3)][cid % 4]
    if (ep2, en2) == (o["ep"], o["en"]):
        ep2 += 2
    e = ev("SetEasy", h=1, ep=ep2, en=en2, post=dict(sd.EMPTY_POST))
    try:
        s.nb_easy_pos, s.nb_easy_neg = ep2, en2
        e["post"] = sd.alpha_obj(s, sd.inv_map(g))
        eer_event(ev, s, dict(o, ep=ep2, en=en2), 1, g)
    except Exception as ex:  # noqa
        e["exc"] = sd.exc_str(ex)
        return evs
    # ... and another configuration (string or enum member)
    o3 = sd.set_config_event(ev, s, dict(o, ep=ep2, en=en2), g, k=cid)
    if o3 is not None:
        eer_event(ev, s, o3, 1, g)
        # ... a copy of it gets yet another configuration and other easy counts, is queried, and then
        # the original is queried again
        s9 = sd.copy_event(ev, s, o3, g, h=1, h2=9, how=["copy", "deepcopy", "pickle"][cid % 3])
        if s9 is not None:
            o9 = sd.set_config_event(ev, s9, o3, g, h=9, k=cid + 1)
            if o9 is not None:
                e = ev("SetEasy", h=9, ep=o3["ep"] + 3, en=o3["en"] + 1, post=dict(sd.EMPTY_POST))
                try:
                    s9.nb_easy_pos, s9.nb_easy_neg = o3["ep"] + 3, o3["en"] + 1
                    e["post"] = sd.alpha_obj(s9, sd.inv_map(g))
                    eer_event(ev, s9, dict(o9, ep=o3["ep"] + 3, en=o3["en"] + 1), 9, g)
                except Exception as ex:  # noqa
                    e["exc"] = sd.exc_str(ex)
            eer_event(ev, s, o3, 1, g)
    return evs


def run(ctx: core.Ctx):
    core.import_repo()
    par = TIERS[ctx.tier]
    cases_file = ctx.work / "cases.json"
    ctx.model("MC_C06", MC_CFG.format(**par), env={"CASES_FILE": cases_file})
    data = json.loads(cases_file.read_text())
    cases = data["cases"]
    base = [gamma.ident(), gamma.affine(2.0, 1.0)]
    ids = iter(range(1, 10**9))
    events = []
    used = []
    for cid, o in enumerate(cases):
        tf = tie_free(o)
        if not tf and ctx.tier == "quick" and cid % 6:
            continue                       # ties: only the zero-EER clause applies; sample them
        g = base[(cid + ctx.seed) % 2]
        g2 = AFF[(cid + ctx.seed) % len(AFF)]
        events += events_for_case(o, len(used), g, g2, ids, relations=tf)
        used.append(o)
        if tf and (o["ep"] or o["en"] or o["sc"] == "neg"):
            ctx.nontrivial.add(json.dumps(o, sort_keys=True))
    # independent trace: larger, very unequal class sizes, inverted / interleaved classes, equal and
    # unequal easy counts (the bounded model has at most 3 + 2 scored samples)
    rnd = np.random.RandomState(ctx.seed + 41)
    nwide = 150 if ctx.tier == "quick" else 1500
    for k in range(nwide):
        npos, nneg = [(3, 20), (20, 3), (5, 12), (12, 5), (2, 9), (7, 7)][k % 6]
        vals = rnd.permutation(40)[: npos + nneg]
        kind = k % 3
        if kind == 0:      # perfectly inverted
            vs = np.sort(vals)
            pos, neg = vs[:npos], vs[npos:]
        elif kind == 1:    # mostly inverted with a little overlap
            vs = np.sort(vals)
            pos, neg = list(vs[:npos]), list(vs[npos:])
            if npos > 1 and nneg > 1:
                pos[-1], neg[0] = neg[0], pos[-1]
        else:              # random interleaving
            pos, neg = vals[:npos], vals[npos:]
        ep, en = [(1, 1), (2, 2), (5, 5), (0, 0), (3, 1), (0, 4)][(k // 6) % 6]
        sc = ["pos", "neg"][(k // 3) % 2]
        if sc == "neg" and kind != 2:
            pos, neg = neg, pos             # keep the classifier bad in both score directions
        o = {"pos": sorted(int(x) for x in pos), "neg": sorted(int(x) for x in neg), "ep": ep, "en": en,
             "sc": sc, "ec": ["pos", "neg"][(k // 2) % 2]}
        if len(o["pos"]) == 0 or len(o["neg"]) == 0:
            continue
        g = base[(k + ctx.seed) % 2]
        if k % 4 == 3:
            # all scores but the two extreme ones in a tight cluster (1e-12 apart) in the middle of [0, 1]
            allv = o["pos"] + o["neg"]
            g = gamma.clustered(min(allv), max(allv))
        events += events_for_case(o, len(used), g, AFF[(k + ctx.seed) % len(AFF)], ids,
                                  relations=not g.name.startswith("clustered"))
        used.append(o)
        ctx.nontrivial.add(json.dumps(o, sort_keys=True))
    # very large, well separated data (EER of a few samples in several hundred thousand)
    from score_analysis import Scores
    for k in range(2 if ctx.tier == "quick" else 8):
        n = [30000, 200000, 400000][k % 3]
        ov = 2 + k
        sc = ["pos", "neg"][k % 2]
        hi = np.arange(n, dtype=float) + (n - ov) + 0.5          # the class on the accepted side
        lo = np.arange(n, dtype=float)
        pos, neg = (hi, lo) if sc == "pos" else (lo, hi)
        ep, en = [(0, 0), (3, 1)][k % 2]
        e = {"id": next(ids), "cid": len(used), "op": "eer_counts", "exc": "", "conc": "large", "npos": n, "nneg": n,
             "ep": ep, "en": en, "e": [0, 0], "e_is_zero": False, "fp": 0, "fn": 0}
        try:
            s_ = Scores(pos, neg, nb_easy_pos=ep, nb_easy_neg=en, score_class=sc, equal_class=["pos", "neg"][(k // 2) % 2])
            t, ee = s_.eer()
            fr = Fraction(float(ee)).limit_denominator(2 * (n + 5))
            e["e"] = [fr.numerator % 2000000000, fr.denominator] if abs(float(fr) - float(ee)) < 1e-9 else [0, 0]
            e["e_is_zero"] = bool(ee == 0.0)
            m = s_.cm(t).matrix
            e["fp"], e["fn"] = int(m[1, 0]), int(m[0, 1])
        except Exception as ex:  # noqa
            e["exc"] = sd.exc_str(ex)
        events.append(e)
        used.append({"kind": "large", "n": n, "overlap": ov, "sc": sc})
    ctx.sample(events[1])
    ctx.judge("Trace_C06", events, cases=used, batch=2500)
    ctx.rule = ("objects of the bounded model with both classes non-empty: every tie-free one (with "
                "affine and negated partner), ties for the zero-EER clause; non-trivial = tie-free with "
                "easy samples or reversed score direction")
    ctx.exhaustive = ctx.tier == "thorough"
    ctx.extra["constants"] = par
    ctx.extra["objects_driven"] = len(used)
    ctx.assumptions = ["small-scope", "EER projected to a rational with denominator <= 5000 (1e-8); the "
                       "implementation's bisection stops at 1e-10"]
    return ctx.finish()


def replay(ctx: core.Ctx, body):
    core.import_repo()
    o = body["case"]
    ids = iter(range(1, 10**9))
    events = []
    for g2 in AFF:
        events += events_for_case(o, 0, gamma.ident(), g2, ids, relations=tie_free(o))
    ctx.judge("Trace_C06", events, cases=[o])
    return ctx.finish()
