"""C02 - threshold setting round-trips within one sample; methods coherent.
(The same machinery, restricted to the extreme targets over a wider range of
easy-sample counts, decides C03: see c03.py.)

Leg A: TLC on MC_C02 (ThresholdCoded = Rescale . Normalise . Invert in exact
rationals; round trip, extremes, coherence, convexity, monotonicity for every
object x metric x method x target of the bounded model).
Leg B: every object TLC enumerated is built for real and queried with the same
target grid, all three methods, aliases and scalar calls.
Leg C: TLC validates the recorded trace against Trace_C02.
"""
from __future__ import annotations

import json

from .. import core, gamma
from .. import scoresdrv as sd

PROP = "C02"
PREFIXES = ("C02.",)

MC_CFG = """SPECIFICATION Spec
CONSTANTS
  K = {K}
  MaxP = {MaxP}
  MaxN = {MaxN}
  EasyPairs <- {Easy}
  Qs <- {Qs}
INVARIANT InvRoundTrip
INVARIANT InvExtreme
INVARIANT InvLowerHigherAreScores
INVARIANT InvCoherent
INVARIANT InvConvex
INVARIANT InvMonotone
POSTCONDITION EmitCases
CHECK_DEADLOCK FALSE
"""

TIERS = {
    "quick": dict(K=3, MaxP=3, MaxN=2, Easy="EasyQuick", Qs="QsQuick"),
    "thorough": dict(K=4, MaxP=3, MaxN=3, Easy="EasyThorough", Qs="QsThorough"),
}


def events_for_case(o, cid, gam, qs, ids, metrics=sd.METRICS, extra_targets=()):
    evs = []
    ev = sd.make_ev(evs, ids, cid, gam)
    s = sd.new_event(ev, o, gam)
    if s is None:
        return evs
    for m in metrics:
        if len(sd.rel_scores(o, m)) == 0:
            e = ev("threshold_empty", h=1, m=m)
            try:
                getattr(s, "threshold_at_" + m)(0.5)
                e["exc"] = "none"
            except ValueError:
                e["exc"] = "ValueError"
            except Exception as ex:  # noqa
                e["exc"] = type(ex).__name__
            continue
        sd.threshold_event(ev, s, o, m, qs, gam, extra_targets=extra_targets)
    if cid % 3 == 1 and not gam.name.startswith(("random", "big", "ulp")):
        # history: the scores of the (already queried) object are shifted in place
        o2 = sd.shift_event(ev, s, o, gam, d=2)
        if o2 is not None:
            for m in metrics[(cid // 3) % 2::2]:
                if len(sd.rel_scores(o2, m)):
                    sd.threshold_event(ev, s, o2, m, qs, gam, extra_targets=extra_targets)
    if cid % 3 == 2 and not gam.name.startswith(("random", "big", "ulp", "half")):
        # history: one score array of the (already queried) object is re-bound to a new array
        o2 = sd.set_scores_event(ev, s, o, gam, cls_=["pos", "neg"][(cid // 3) % 2])
        if o2 is not None:
            for m in metrics:
                if len(sd.rel_scores(o2, m)):
                    sd.threshold_event(ev, s, o2, m, qs, gam, extra_targets=extra_targets)
    if cid % 6 == 0:
        # history: another configuration is assigned to the (already queried) object
        o2 = sd.set_config_event(ev, s, o, gam, k=cid // 3)
        if o2 is not None:
            for m in metrics[(cid // 3) % 2::2]:
                if len(sd.rel_scores(o2, m)):
                    sd.threshold_event(ev, s, o2, m, qs, gam, extra_targets=extra_targets)
    elif cid % 6 == 3:
        # history: a copy (shallow / deep / pickled) gets another configuration and is queried; then the
        # original is queried again
        how = ["copy", "deepcopy", "pickle"][(cid // 6) % 3]
        s2 = sd.copy_event(ev, s, o, gam, h=1, h2=8, how=how)
        if s2 is not None:
            o2 = sd.set_config_event(ev, s2, o, gam, h=8, k=cid // 6)
            if o2 is not None:
                for m in metrics[(cid // 6) % 2::2]:
                    if len(sd.rel_scores(o2, m)):
                        sd.threshold_event(ev, s2, o2, m, qs, gam, h=8, extra_targets=extra_targets)
            for m in metrics[(cid // 6 + 1) % 2::2]:
                if len(sd.rel_scores(o, m)):
                    sd.threshold_event(ev, s, o, m, qs, gam, extra_targets=extra_targets)
    return evs


def forms_and_large(ctx, ids, cases):
    """Independent trace: targets given as list / tuple / pandas Series; objects of a few hundred to a
    few thousand scores (ties, easy samples) with a random subset of on- and off-grid targets."""
    import numpy as np
    import pandas as pd
    from fractions import Fraction
    rnd = np.random.RandomState(ctx.seed + 404)
    out = []
    g = gamma.ident()
    forms = [list, tuple, pd.Series, lambda x: x.reshape(1, -1)[0]]
    for k in range(16 if ctx.tier == "quick" else 150):
        o = {"pos": sorted(int(x) for x in rnd.randint(0, 4, rnd.randint(0, 5))),
             "neg": sorted(int(x) for x in rnd.randint(0, 4, rnd.randint(0, 5))),
             "ep": int(rnd.randint(0, 3)), "en": int(rnd.randint(0, 3)),
             "sc": ["pos", "neg"][k % 2], "ec": ["pos", "neg"][(k // 2) % 2]}
        cid = len(cases)
        cases.append(o)
        evs = []
        ev = sd.make_ev(evs, ids, cid, g)
        s = sd.new_event(ev, o, g)
        if s is not None:
            for j, m in enumerate(sd.METRICS):
                if sd.rel_scores(o, m):
                    if (k + j) % 5 == 4:       # targets in random order (1-D or 2-D)
                        nt = len(sd.targets(o, m, [1, 2]))
                        sd.threshold_event(ev, s, o, m, [1, 2], g, order=rnd.permutation(nt))
                    else:
                        sd.threshold_event(ev, s, o, m, [1, 2], g, form=forms[(k + j) % 4])
            if o["ep"] == 0 and o["en"] == 0 or k % 4 == 0:
                og = dict(o, ep=0, en=0)
                sg = sd.new_group_event(ev, og, g, h=2, seed=k)      # subclass, unsorted input
                if sg is not None:
                    for j, m in enumerate(sd.METRICS):
                        if sd.rel_scores(og, m):
                            sd.threshold_event(ev, sg, og, m, [1, 2], g, h=2)
        out += evs
    for k, n in enumerate([150, 1200] if ctx.tier == "quick" else [150, 400, 1200, 3000]):
        vals = rnd.randint(0, max(10, n // 5), n)
        npos = n // 2 + 3 * k
        o = {"pos": sorted(int(x) for x in vals[:npos]), "neg": sorted(int(x) for x in vals[npos:]),
             "ep": int(rnd.randint(0, 40)), "en": int(rnd.randint(0, 40)),
             "sc": ["pos", "neg"][k % 2], "ec": ["pos", "neg"][(k // 2) % 2]}
        cid = len(cases)
        cases.append({"kind": "large", "n": n})
        evs = []
        ev = sd.make_ev(evs, ids, cid, g)
        s = sd.new_event(ev, o, g)
        if s is not None:
            for m in sd.METRICS:
                N = sd.metric_pop(o, m)
                ks = sorted(set(int(x) for x in rnd.randint(0, 2 * N + 1, 12)) | {0, 1, 2 * N - 1, 2 * N})
                tg = [Fraction(kk, 2 * N) for kk in ks] + [Fraction(-1, 3), Fraction(4, 3)]
                sd.threshold_event(ev, s, o, m, [], g, only_targets=tg)
        out += evs
    # objects of 1e5 .. 1e6 scores: judged on counts alone (targets within a few samples of both ends of
    # the scale, where "close to 0/1" is not "equal to 0/1", and a random interior sample)
    from score_analysis import Scores
    for k, (npos, nneg, ep, en) in enumerate([(400000, 300000, 0, 0), (250000, 400000, 100000, 7)]
                                             if ctx.tier == "quick" else
                                             [(400000, 300000, 0, 0), (250000, 400000, 100000, 7),
                                              (1000000, 1000000, 1000000, 0), (600000, 500000, 3, 900000)]):
        cid = len(cases)
        cases.append({"kind": "big", "npos": npos, "nneg": nneg, "ep": ep, "en": en})
        evs = []
        ev = sd.make_ev(evs, ids, cid, g)
        sc, ec = ["pos", "neg"][k % 2], ["pos", "neg"][(k // 2 + 1) % 2]
        s = Scores(rnd.permutation(npos) / float(npos), (rnd.permutation(nneg) + 0.25) / float(nneg) - 0.3,
                   nb_easy_pos=ep, nb_easy_neg=en, score_class=sc, equal_class=ec)
        for m in sd.METRICS:
            pop = {"tpr": npos + ep, "fnr": npos + ep, "tnr": nneg + en, "fpr": nneg + en}.get(m, npos + nneg + ep + en)
            ks = set(range(-2, 26)) | {2 * pop - j for j in range(-2, 26)} | \
                {int(x) for x in rnd.randint(0, 2 * pop, 10)}
            sd.threshold_big_event(ev, s, m, pop, ks)
        out += evs
    return out


def lifetimes(ctx, ids, cases, qs):
    """Object LIFETIMES as history: short-lived objects of identical sizes, dtype and extreme scores but
    different interior scores are built, queried and dropped one after the other (CPython then hands the
    next object's arrays the addresses of the previous one's): what an object answers depends on its own
    scores only, never on an object that lived before it (seed C02-11: a module-level cache keyed by id)."""
    import gc
    import numpy as np
    rnd = np.random.RandomState(ctx.seed + 1102)
    out = []
    g = gamma.ident()
    for k in range(24 if ctx.tier == "quick" else 240):
        n = 4 + (k // 12) % 2
        o = {"pos": [0] + sorted(int(x) for x in rnd.randint(0, 4, n - 2)) + [3],
             "neg": [0] + sorted(int(x) for x in rnd.randint(0, 4, n - 2)) + [3],
             "ep": 0, "en": 0, "sc": ["pos", "neg"][(k // 6) % 2], "ec": ["pos", "neg"][(k // 3) % 2]}
        cid = len(cases)
        cases.append(o)
        evs = []
        ev = sd.make_ev(evs, ids, cid, g)
        s = sd.new_event(ev, o, g)
        if s is not None:
            for m in ("topr", "tonr") + tuple(sd.METRICS[k % 4:k % 4 + 1]):
                sd.threshold_event(ev, s, o, m, qs, g)
        out += evs
        del s
        gc.collect()
    ctx.extra["lifetime_histories"] = 24 if ctx.tier == "quick" else 240
    return out


def nontrivial_key(o):
    vals = list(o["pos"]) + list(o["neg"])
    if len(set(vals)) < len(vals) or o["ep"] or o["en"]:
        return json.dumps(o, sort_keys=True)
    return None


def filter_failures(ctx, prefixes):
    ctx.failures = [f for f in ctx.failures if f[0].startswith(prefixes)]


def run(ctx: core.Ctx, prefixes=PREFIXES):
    core.import_repo()
    par = TIERS[ctx.tier]
    cases_file = ctx.work / "cases.json"
    ctx.model("MC_C02", MC_CFG.format(**par), env={"CASES_FILE": cases_file})
    data = json.loads(cases_file.read_text())
    qs, cases = data["qs"], data["cases"]
    fam = gamma.family(ctx.tier, ctx.seed)
    ids = iter(range(1, 10**9))
    events = []
    for cid, o in enumerate(cases):
        gams = fam if (ctx.tier == "thorough" and cid % 6 == 0) else [fam[(cid + ctx.seed) % len(fam)]]
        for g in gams:
            events += events_for_case(o, cid, g, qs, ids)
        k = nontrivial_key(o)
        if k:
            ctx.nontrivial.add(k)
    events += forms_and_large(ctx, ids, cases)
    events += lifetimes(ctx, ids, cases, qs)
    for e in events[:2]:
        ctx.sample(e)
    ctx.judge("Trace_C02", events, cases=cases, batch=1500)
    filter_failures(ctx, prefixes)
    ctx.rule = ("cases = every object of the bounded model (ascending multisets over K values per "
                "class, easy pairs, 4 configs) x 6 metrics x 3 methods x targets k/(qN) for k=-q..qN+q "
                "(on/off grid, <0, >1), vector + scalar + alias calls; non-trivial = object has a tie "
                "or easy samples")
    ctx.exhaustive = True
    ctx.extra["constants"] = par
    ctx.extra["concretisations"] = [g.name for g in fam]
    ctx.assumptions = ["small-scope: exhaustive only within the stated constants",
                       "thresholds projected to rationals with denominator <= 1000 (1e-9 tolerance); "
                       "ulp-level behaviour is captured by the recorded counts at t and nextafter(t)"]
    return ctx.finish()


def replay(ctx: core.Ctx, body, prefixes=PREFIXES):
    core.import_repo()
    o = body["case"]
    ids = iter(range(1, 10**9))
    events = []
    for g in gamma.family("thorough", ctx.seed):
        events += events_for_case(o, 0, g, [1, 2, 3], ids)
    ctx.judge("Trace_C02", events, cases=[o])
    filter_failures(ctx, prefixes)
    return ctx.finish()
