"""C13 - bootstrap confidence limits follow the quantile / BC / BCa formulas.

Leg A: TLC on MC_C13 (documented formulas in exact rationals / fixed point with
tabulated Phi, Phi^-1, sqrt: ordering, range, nesting, NaN and order
invariance, affine equivariance).
Leg B: utils.bootstrap_ci on every replicate vector TLC enumerated (NaNs
included), int and float dtype, all three methods, plus transformed inputs.
Leg C: TLC validates recorded limits against the formulas (Trace_C13).
"""
from __future__ import annotations

import json
from fractions import Fraction

import numpy as np

from .. import core

PROP = "C13"
MC_CFG = """SPECIFICATION Spec
CONSTANTS
  Vals <- {Vals}
  MaxLen = {MaxLen}
  Ests <- {Ests}
  Alphas <- AlphasAll
INVARIANT InvOrdered
INVARIANT InvInRange
INVARIANT InvNested
INVARIANT InvAffine
PROPERTY NaNIgnored
PROPERTY OrderIgnored
POSTCONDITION EmitCases
CHECK_DEADLOCK FALSE
"""
TIERS = {"quick": dict(Vals="ValsQuick", MaxLen=4, Ests="EstsQuick"),
         "thorough": dict(Vals="ValsThorough", MaxLen=5, Ests="EstsThorough")}
METHODS = ["quantile", "bc", "bca"]
LIM = 1_500_000_000


def fx6(x):
    x = float(x)
    if x != x:
        return LIM
    v = x * 1e6
    return int(round(max(-LIM, min(LIM, v))))


def rat(x):
    fr = Fraction(float(x)).limit_denominator(4000)
    return [fr.numerator, fr.denominator] if abs(float(fr) - float(x)) < 1e-9 else [0, 0]


def to_arr(theta, nan, dtype):
    a = np.array([np.nan if v == nan else v for v in theta], dtype=float)
    if dtype == "int" and nan not in theta:
        return np.array(theta, dtype=int)
    if dtype == "uint" and nan not in theta and min(theta) >= 0:
        return np.array(theta, dtype=np.uint32)      # e.g. a count metric returned as an unsigned integer
    return a


def event(theta, est, method, alphas, nan, cid, ids, dtype, seed):
    from score_analysis.utils import bootstrap_ci
    rnd = np.random.RandomState(seed + cid)
    e = {"id": next(ids), "cid": cid, "op": "bootci", "exc": "", "theta": theta, "est": est,
         "method": method, "alphas": alphas, "dtype": dtype, "shape_ok": True,
         "out": {}, "outq": {}, "v_nan": {}, "v_perm": {}, "v_aff": {}, "v_stack": {}, "v_stack2": {}, "v_small": {}, "aff": [2, 1], "theta_untouched": True}
    try:
        th = to_arr(theta, nan, dtype)
        est_main = est
        if th.dtype == np.uint32 and est >= 0:
            est_main = np.uint32(est)                 # replicates and estimate share the unsigned dtype
        thf = th.astype(float)
        th_keep = th.copy()
        if cid % 3 == 0:
            th.flags.writeable = False            # the caller's replicate array may be read-only
        th_nan = np.concatenate([thf[:1], [np.nan], thf[1:], [np.nan, np.nan]])
        th_nan_f = np.asfortranarray(th_nan.reshape(-1, 1))     # single component, column-major, with NaNs
        th_nan_keep = th_nan_f.copy()
        perm = rnd.permutation(len(th))
        k, c = int(rnd.choice([2, 3, 5])), int(rnd.choice([-7, 1, 4]))
        e["aff"] = [k, c]
        other = np.asarray(rnd.randint(0, 4, size=len(th)), dtype=float)
        stack = np.stack([other, thf], axis=1)                       # (N, 2): our column is no. 1
        est_stack = np.array([float(other.mean().round()), float(est)])
        # a (2, 3)-shaped metric: ours at [1, 2], its affine image at [0, 1], unrelated data elsewhere;
        # the point estimate is handed over column-major or as a transposed view
        st2 = np.asarray(rnd.randint(0, 4, size=(len(th), 2, 3)), dtype=float)
        st2[:, 1, 2], st2[:, 0, 1] = thf, k * thf + c
        est2 = np.asarray(rnd.randint(0, 4, size=(2, 3)), dtype=float)
        est2[1, 2], est2[0, 1] = est, k * est + c
        est2 = np.asfortranarray(est2) if cid % 2 else np.ascontiguousarray(est2.T).T
        ok = True
        for a in alphas:
            al = a / 1000.0
            r = np.asarray(bootstrap_ci(th, est_main, al, method=method))
            ok = ok and r.shape == (2,)
            e["out"][str(a)] = [fx6(r[0]), fx6(r[1])]
            if method == "quantile":
                e["outq"][str(a)] = [rat(r[0]), rat(r[1])]
            r2 = np.asarray(bootstrap_ci(th_nan_f, np.array([est]), al, method=method)).reshape(-1)
            e["v_nan"][str(a)] = [fx6(r2[0]), fx6(r2[1])]
            if not (np.array_equal(th, th_keep, equal_nan=th.dtype.kind == "f") and np.array_equal(th_nan_f, th_nan_keep, equal_nan=True)):
                e["theta_untouched"] = False
            r3 = np.asarray(bootstrap_ci(th[perm], est, al, method=method))
            e["v_perm"][str(a)] = [fx6(r3[0]), fx6(r3[1])]
            r4 = np.asarray(bootstrap_ci(k * thf + c, k * est + c, al, method=method))
            e["v_aff"][str(a)] = [fx6(r4[0]), fx6(r4[1])]
            # the same data in small units (x 1e-5): limits must scale with them
            r8 = np.asarray(bootstrap_ci(thf * 1e-5, est * 1e-5, al, method=method)) * 1e5
            e["v_small"][str(a)] = [fx6(r8[0]), fx6(r8[1])]
            r5 = np.asarray(bootstrap_ci(stack, est_stack, al, method=method))
            ok = ok and r5.shape == (2, 2)
            e["v_stack"][str(a)] = [fx6(r5[1][0]), fx6(r5[1][1])] if r5.shape == (2, 2) else [LIM, LIM]
            r9 = np.asarray(bootstrap_ci(st2, est2, al, method=method))
            ok = ok and r9.shape == (2, 3, 2)
            e["v_stack2"][str(a)] = [[fx6(r9[1, 2, 0]), fx6(r9[1, 2, 1])], [fx6(r9[0, 1, 0]), fx6(r9[0, 1, 1])]] \
                if r9.shape == (2, 3, 2) else [[LIM, LIM], [LIM, LIM]]
        if method == "quantile":
            # array-valued alpha: shape metric_shape + alpha_shape + (2,), same numbers
            al = np.array([a / 1000.0 for a in alphas])
            r6 = np.asarray(bootstrap_ci(stack, None, al, method="quantile"))
            ok = ok and r6.shape == (2, len(alphas), 2)
            if r6.shape == (2, len(alphas), 2):
                for j, a in enumerate(alphas):
                    ok = ok and [fx6(r6[1, j, 0]), fx6(r6[1, j, 1])] == e["out"][str(a)]
            r7 = np.asarray(bootstrap_ci(thf.reshape(-1, 1, 1), None, al.reshape(2, -1), method="quantile"))
            ok = ok and r7.shape == (1, 1, 2, len(alphas) // 2, 2)
        e["shape_ok"] = bool(ok)
    except Exception as ex:  # noqa
        e["exc"] = f"{type(ex).__name__}: {ex}"[:200]
    return e


def pole_events(ids):
    """'bca' beyond the pole of the acceleration term: ten replicates at +-1, one outlier at -+D, the
    estimate 0 in the opposite tail, tiny alpha (by table key)"""
    from score_analysis.utils import bootstrap_ci
    evs = []
    for key, alpha in (("1e-9", 1e-9), ("1e-12", 1e-12), ("1e-15", 1e-15)):
        for D in (13, 14):
            for sign in (1, -1):
                theta = [sign] * 10 + [-sign * D]
                e = {"id": next(ids), "cid": 0, "op": "bootci_pole", "exc": "", "theta": theta, "est": 0,
                     "key": key, "out": [LIM, LIM]}
                try:
                    r = np.asarray(bootstrap_ci(np.array(theta, dtype=float), 0.0, alpha, method="bca"))
                    e["out"] = [fx6(r[0]), fx6(r[1])]
                except Exception as ex:  # noqa
                    e["exc"] = f"{type(ex).__name__}: {ex}"[:200]
                evs.append(e)
    return evs


def run(ctx: core.Ctx):
    core.import_repo()
    par = TIERS[ctx.tier]
    cases_file = ctx.work / "cases.json"
    tables = core.VERIF / "gen" / "tables.json"
    ctx.model("MC_C13", MC_CFG.format(**par), env={"CASES_FILE": cases_file, "TABLES_FILE": tables})
    data = json.loads(cases_file.read_text())
    nan, ests, alphas = data["nan"], sorted(data["ests"]), sorted(data["alphas"])
    cases = [list(c) for c in data["cases"] if any(v != nan for v in c)]
    ids = iter(range(1, 10**9))
    evs = []
    for cid, th in enumerate(cases):
        for j, method in enumerate(METHODS):
            es = ests if ctx.tier == "thorough" else [ests[(cid + j + ctx.seed) % len(ests)]]
            for est in es:
                dtype = ["int", "float", "uint"][(cid + j) % 3]
                evs.append(event(th, est, method, alphas, nan, cid, ids, dtype, ctx.seed))
        fin = [v for v in th if v != nan]
        if len(set(fin)) > 1:
            ctx.nontrivial.add(json.dumps(th))
    from score_analysis.utils import bootstrap_ci
    import warnings
    for method in METHODS:
        for n in (1, 3):
            e = {"id": next(ids), "cid": 0, "op": "bootci_all_nan", "exc": "", "method": method, "n": n,
                 "all_nan": False, "other_unaffected": False}
            try:
                with warnings.catch_warnings():
                    warnings.simplefilter("ignore")
                    th = np.stack([np.full(n, np.nan), np.arange(n, dtype=float)], axis=1)
                    r = np.asarray(bootstrap_ci(th, np.array([np.nan, 1.0]), 0.1, method=method))
                    r1 = np.asarray(bootstrap_ci(np.arange(n, dtype=float), 1.0, 0.1, method=method))
                e["all_nan"] = bool(r.shape == (2, 2) and np.isnan(r[0]).all())
                e["other_unaffected"] = bool(r.shape == (2, 2) and np.array_equal(r[1], r1))
            except Exception as ex:  # noqa
                e["exc"] = f"{type(ex).__name__}: {ex}"[:200]
            evs.append(e)
    evs += pole_events(ids)
    ctx.sample(evs[len(evs) // 2])
    ctx.judge("Trace_C13", evs, cases=cases, batch=800, env_extra={"TABLES_FILE": str(tables)})
    ctx.rule = ("every replicate vector up to MaxLen over the value set and NaN (at least one finite), "
                "x 3 methods x estimates inside/outside the range x 6 alphas, int/float dtype, with NaN-"
                "inserted, permuted, affine and stacked variants; non-trivial = >= 2 distinct finite replicates")
    ctx.exhaustive = True
    ctx.extra["constants"] = par
    ctx.assumptions = ["Phi, Phi^-1, sqrt tabulated from the Python standard library; bc/bca limits "
                       "decided to 2e-4 x replicate range", "small-scope: N <= MaxLen replicates"]
    return ctx.finish()


def replay(ctx: core.Ctx, body):
    core.import_repo()
    th = body["case"]
    tables = core.VERIF / "gen" / "tables.json"
    ids = iter(range(1, 10**9))
    evs = [event(th, est, m, [10, 50, 100, 200, 500, 900], -99999, 0, ids, dt, ctx.seed)
           for m in METHODS for est in (-1, 1, 2, 4) for dt in ("int", "float")]
    evs += pole_events(ids)
    ctx.judge("Trace_C13", evs, cases=[th], env_extra={"TABLES_FILE": str(tables)})
    return ctx.finish()
