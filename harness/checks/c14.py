"""C14 - bootstrapped metrics / intervals are what sampler and formula produce.

Leg A: TLC on MC_C14 (BootLoop program-counter machine, exhaustive for small
nb_samples and a few candidate samples) and `-simulate` behaviours of it.
Leg B (spec -> code): every simulated behaviour is replayed: the custom sampler
is scripted to return exactly the samples TLC chose, the call
(bootstrap_metric / bootstrap_ci, method, alpha) is the one TLC chose.
Independent traces: built-in samplers under a fixed NumPy seed, observed through
a subclass that overrides bootstrap_sample; metrics by name with kwargs.
Leg C: TLC validates the recorded Start/Sample/MetricCall/Return events.
"""
from __future__ import annotations

import json

import numpy as np

from .. import core, gamma, simparse
from .. import scoresdrv as sd

PROP = "C14"
MC_CFG = """SPECIFICATION LSpec
CONSTANTS
  Candidates <- CandQuick
  MaxN = {MaxN}
  T2s <- T2Quick
INVARIANT InvRowsFollowSamples
INVARIANT InvDone
INVARIANT InvIdentityCollapses
CHECK_DEADLOCK FALSE
"""
TIERS = {"quick": dict(MaxN=3, nsim=300, nseed=40), "thorough": dict(MaxN=5, nsim=1500, nseed=400)}
G = gamma.ident()


def rec_obj(o):
    return {"pos": list(o["pos"]), "neg": list(o["neg"]), "ep": o["ep"], "en": o["en"],
            "sc": o["sc"], "ec": o["ec"]}


def rat(x):
    return gamma.proj_rat(x, 1000)


def fx6(x):
    x = float(x)
    return 1_500_000_000 if x != x else int(round(max(-1.5e9, min(1.5e9, x * 1e6))))


class Recorder:
    def __init__(self, evs, ids, cid, beh):
        self.evs, self.ids, self.cid, self.beh = evs, ids, cid, beh

    def ev(self, op, **kw):
        e = {"id": next(self.ids), "cid": self.cid, "beh": self.beh, "op": op, "exc": "", "conc": "ident"}
        e.update(kw)
        self.evs.append(e)
        return e


def make_metric(rec, name, inv, kw_seen):
    """metric callable with a kwarg; logs every call with the object it was given."""
    buf = np.zeros(2)

    def metric(s, threshold=None, **extra):
        kw_seen.append(threshold is not None and not extra)
        rec.ev("MetricCall", obj=sd.alpha_obj(s, inv))
        c = s.cm(threshold)
        if name == "vec":
            # array-valued metric whose second component is undefined on some samples
            top = c.tp() + c.fp()
            if rec.cid % 2:
                # ... written into an output buffer that the metric re-uses on every call
                buf[:] = [float(c.fp()), float(c.tp()) if top > 0 else np.nan]
                return buf
            return np.array([float(c.fp()), float(c.tp()) if top > 0 else np.nan])
        if name == "micro":
            return c.fp() * 1e-6                  # the same count reported in a small unit
        return c.fp() if name == "fp_count" else c.fn()
    return metric


def comp_rows(rows, ncomp):
    """rows (n,) or (n, ncomp) -> list of component lists of [n, d] (NaN = [0, 0])"""
    a = np.asarray(rows, dtype=float).reshape(-1, ncomp)
    return [[[0, 0] if x != x else [int(x), 1] if x == int(x) else rat(x) for x in row] for row in a]


def split_runs(beh):
    """A behaviour is one or two calls on the same source object (action Again)."""
    runs, cur = [], []
    for s in beh:
        if s["action"] == "Again":
            runs.append(cur)
            cur = []
        else:
            cur.append(s)
    runs.append(cur)
    return [r for r in runs if r and r[-1]["state"]["pc"] == "done"]


def plan_of(beh):
    """JSON-able description of a behaviour: the source object and, per call of the history,
    (call, n, method, alpha, threshold, samples the sampler must return)."""
    runs = split_runs(beh)
    if not runs:
        return None
    def j(o):
        return {k: (list(v) if isinstance(v, tuple) else v) for k, v in dict(o).items()}
    plan = {"src": j(runs[0][-1]["state"]["src"]), "runs": []}
    for run_ in runs:
        last = run_[-1]["state"]
        st = [s for s in run_ if s["action"] == "Start"][0]
        asm = [s for s in run_ if s["action"] == "Assemble"][0]
        plan["runs"].append({"call": st["args"][0], "n": st["args"][1], "method": asm["args"][0],
                             "alpha": asm["args"][1], "thr": last["thr"],
                             "produced": [j(p) for p in last["produced"]]})
    return plan


def replay_behaviour(plan, cid, ids):
    """Drive the real loop along one TLC behaviour of BootLoop: the same real
    object and the same metric callable serve every call of the history."""
    from score_analysis import BootstrapConfig
    if not plan:
        return []
    src_a = plan["src"]
    evs = []
    rec = Recorder(evs, ids, cid, cid)
    inv = sd.inv_map(G)
    src = sd.build(src_a, G)
    kw_seen = []
    mname = ["vec", "fp_count", "micro"][cid % 3]
    unit = 1e6 if mname == "micro" else 1.0       # projection back to counts
    ncomp = 2 if mname == "vec" else 1
    metric = make_metric(rec, mname, inv, kw_seen)
    for run_ in plan["runs"]:
        call, n, method, alpha, thr = run_["call"], run_["n"], run_["method"], run_["alpha"], run_["thr"]
        produced = [dict(p) for p in run_["produced"]]
        queue = [sd.build(p, G) if p != src_a else src for p in produced]
        calls = {"i": 0}

        def sampler(source, queue=queue, calls=calls):
            s = queue[calls["i"] % len(queue)]
            calls["i"] += 1
            rec.ev("Sample", obj=sd.alpha_obj(s, inv))
            return s

        del kw_seen[:]
        cfg = BootstrapConfig(nb_samples=n, bootstrap_method=method, sampling_method=sampler)
        rec.ev("Start", call=call, n=n, src=rec_obj(src_a), metric="fp_count" if mname == "micro" else mname,
               t2=thr, method=method, alpha=alpha, unit=mname)
        ret = {"rows": [], "ci": [], "shape_ok": True, "same_seed_same_result": True,
               "kwargs_seen": True, "group_rows_ok": True, "exc": ""}
        try:
            t = G.thr(thr)
            if call == "metric":
                rows = np.asarray(src.bootstrap_metric(metric, config=cfg, threshold=t))
                ret["shape_ok"] = bool(rows.shape == ((n,) if ncomp == 1 else (n, ncomp)))
                ret["rows"] = comp_rows(np.round(rows * unit, 6) if unit != 1.0 else rows, ncomp)
            else:
                ci = np.asarray(src.bootstrap_ci(metric, alpha=alpha / 1000.0, config=cfg, threshold=t))
                ret["shape_ok"] = bool(ci.shape == ((2,) if ncomp == 1 else (ncomp, 2)))
                ret["ci"] = [[fx6(x[0] * unit), fx6(x[1] * unit)] for x in ci.reshape(-1, 2)]
            ret["kwargs_seen"] = bool(all(kw_seen)) and len(kw_seen) > 0
        except Exception as ex:  # noqa
            ret["exc"] = sd.exc_str(ex)
        rec.ev("Return", **ret)
    return evs


def seeded_behaviour(k, cid, ids, seed):
    """Built-in samplers, metric by name with kwargs, observed through a subclass."""
    from score_analysis import BootstrapConfig, Scores
    rnd = np.random.RandomState(seed * 7919 + k)
    npos, nneg = int(rnd.randint(2, 6)), int(rnd.randint(2, 6))
    o = {"pos": sorted(int(x) for x in rnd.randint(0, 5, npos)),
         "neg": sorted(int(x) for x in rnd.randint(0, 5, nneg)),
         "ep": int(rnd.randint(0, 3)), "en": int(rnd.randint(0, 3)),
         "sc": ["pos", "neg"][k % 2], "ec": ["pos", "neg"][(k // 2) % 2]}
    inv = sd.inv_map(G)
    evs = []
    rec = Recorder(evs, ids, cid, cid)

    class Rec(Scores):
        def bootstrap_sample(self, config=None):
            s = Scores.bootstrap_sample(self, config)
            rec.ev("Sample", obj=sd.alpha_obj(s, inv))
            return s

        def fpr(self, threshold):                     # overrides a base-class metric (percent)
            return 100.0 * Scores.fpr(self, threshold)

        def pct_fnr(self, threshold):                 # a metric only the subclass has
            return 100.0 * Scores.fnr(self, threshold)

    src = sd.build(o, G, cls=Rec)
    sm = ["replacement", "single_pass", "dynamic", "proportion"][k % 4]
    strat = [None, "by_label"][(k // 4) % 2]
    name = ["fpr", "fnr", "tpr", "tnr", "topr", "tonr", "far", "frr", "pct_fnr"][k % 9]
    canon = {"far": "fpr", "frr": "fnr", "fpr": "pct_fpr"}.get(name, name)   # "fpr" resolves to the override
    n = int(rnd.randint(1, 6))
    thr = int(rnd.randint(-1, 10))
    cfg = BootstrapConfig(nb_samples=n, sampling_method=sm, stratified_sampling=strat,
                          ratio=0.6 if sm == "proportion" else None, bootstrap_method="quantile")
    rec.ev("Start", call="metric", n=n, src=rec_obj(o), metric=canon, t2=thr, method="quantile", alpha=50)
    ret = {"op": "Return", "rows": [], "ci": [], "shape_ok": True, "same_seed_same_result": True,
           "kwargs_seen": True, "group_rows_ok": True, "exc": "", "cid": cid, "beh": cid, "conc": "ident"}
    try:
        t = G.thr(thr)
        np.random.seed(seed + k)
        rows = np.asarray(src.bootstrap_metric(name, config=cfg, threshold=t))
        ret["shape_ok"] = bool(rows.shape == (n,))
        ret["rows"] = [[rat(x)] for x in rows.reshape(-1)]
        keep = len(evs)
        np.random.seed(seed + k)
        rows2 = np.asarray(src.bootstrap_metric(name, config=cfg, threshold=t))
        del evs[keep:]                      # the second run is only compared, not judged
        ret["same_seed_same_result"] = bool(np.array_equal(rows, rows2, equal_nan=True))
    except Exception as ex:  # noqa
        ret["exc"] = sd.exc_str(ex)
    ret["id"] = next(ids)
    evs.append(ret)
    return evs, o


def group_behaviour(k, cid, ids, seed):
    """GroupScores: group-wise metrics by NAME (resolved on the object's own class) with kwargs; the
    same seed must give the same results on an equal object whose per-group cache was touched in
    another order before (a read-only public call)."""
    from score_analysis import BootstrapConfig, GroupScores
    rnd = np.random.RandomState(seed * 31 + k)
    ng = 3
    npos, nneg = int(rnd.randint(5, 9)), int(rnd.randint(5, 9))
    data = dict(pos=rnd.randint(0, 6, npos).astype(float), neg=rnd.randint(0, 6, nneg).astype(float),
                pos_groups=np.array(["abc"[i % ng] for i in range(npos)]),
                neg_groups=np.array(["abc"[(i + 1) % ng] for i in range(nneg)]),
                score_class=["pos", "neg"][k % 2], equal_class=["pos", "neg"][(k // 2) % 2])
    samples = []

    class RecG(GroupScores):
        def bootstrap_sample(self, config=None):
            s = GroupScores.bootstrap_sample(self, config)
            samples.append(s)
            return s

    A, B = RecG(**data), RecG(**data)
    B["c"]                                           # touch the cache out of order
    name = ["group_fnr", "group_fpr", "group_tpr", "group_tnr"][k % 4]
    strat = ["by_group", None, "by_label"][k % 3]
    sm = ["replacement", "dynamic", "single_pass"][(k // 3) % 3]
    n = int(rnd.randint(2, 5))
    cfg = BootstrapConfig(nb_samples=n, sampling_method=sm, stratified_sampling=strat, bootstrap_method="quantile")
    th = np.array([1.5, 3.0])
    e = {"id": next(ids), "cid": cid, "beh": cid, "conc": "ident", "op": "Start", "exc": "", "call": "metric",
         "n": n, "src": {"pos": [], "neg": [], "ep": 0, "en": 0, "sc": "pos", "ec": "pos"}, "metric": "fp_count",
         "t2": 0, "method": "quantile", "alpha": 50}
    ret = {"id": 0, "cid": cid, "beh": cid, "conc": "ident", "op": "Return", "exc": "", "rows": [], "ci": [],
           "shape_ok": True, "same_seed_same_result": True, "kwargs_seen": True, "group_rows_ok": True,
           "group_call": True}
    try:
        np.random.seed(seed + k)
        ra = np.asarray(A.bootstrap_metric(name, config=cfg, threshold=th))
        got = list(samples)
        np.random.seed(seed + k)
        rb = np.asarray(B.bootstrap_metric(name, config=cfg, threshold=th))
        ret["shape_ok"] = bool(ra.shape == (n, ng, 2))
        ret["same_seed_same_result"] = bool(np.array_equal(ra, rb, equal_nan=True))
        ok = len(got) == n
        for j in range(min(n, len(got))):
            ok = ok and np.array_equal(ra[j], np.asarray(getattr(got[j], name)(th)), equal_nan=True)
        ret["group_rows_ok"] = bool(ok)
        np.random.seed(seed + k)
        ca = np.asarray(A.bootstrap_ci(name, alpha=0.1, config=cfg, threshold=th))
        np.random.seed(seed + k)
        cb = np.asarray(B.bootstrap_ci(name, alpha=0.1, config=cfg, threshold=th))
        ret["shape_ok"] = ret["shape_ok"] and bool(ca.shape == (ng, 2, 2))
        ret["same_seed_same_result"] = ret["same_seed_same_result"] and bool(np.array_equal(ca, cb, equal_nan=True))
    except Exception as ex:  # noqa
        ret["exc"] = sd.exc_str(ex)
    e["n"] = 0                                       # the judge's loop clauses do not apply to this event pair
    ret["id"] = next(ids)
    return [e, ret]


def run(ctx: core.Ctx):
    core.import_repo()
    par = TIERS[ctx.tier]
    tables = core.VERIF / "gen" / "tables.json"
    cfg = MC_CFG.format(**par)
    ctx.model("MC_C14", cfg, env={"TABLES_FILE": tables})
    simdir = ctx.work / "sim"
    simdir.mkdir(exist_ok=True)
    r = core.run_tlc("MC_C14", cfg, ctx.work, "sim", env={"TABLES_FILE": tables}, workers=1, simulate=True,
                     args=["-simulate", f"file={simdir}/b,num={par['nsim']}", "-depth", "30",
                           "-seed", str(ctx.seed + 11)])
    if not r["ok"]:
        raise core.MachineryError("simulation of MC_C14 failed:\n" + r["out"][-2000:])
    behs = simparse.load(str(simdir / "b"))
    ids = iter(range(1, 10**9))
    events, cases = [], []
    for b in behs:
        plan = plan_of(b)
        evs = replay_behaviour(plan, len(cases), ids)
        if evs:
            events += evs
            cases.append({"kind": "tlc_behaviour", "cid": len(cases), "plan": plan})
            ctx.nontrivial.add(json.dumps(plan, sort_keys=True))
    ctx.extra["tlc_behaviours_replayed"] = len(cases)
    for k in range(par["nseed"]):
        evs, o = seeded_behaviour(k, len(cases), ids, ctx.seed)
        events += evs
        cases.append({"kind": "seeded", "k": k, "source": o})
    for k in range(par["nseed"]):
        events += group_behaviour(k, len(cases), ids, ctx.seed)
        cases.append({"kind": "group", "k": k})
    ctx.sample([e for e in events if e["cid"] == 0])
    ctx.judge("Trace_C14", events, cases=cases, batch=2000, env_extra={"TABLES_FILE": str(tables)})
    ctx.rule = ("behaviours of the BootLoop model generated by TLC -simulate (scripted sampler, call, "
                "method, alpha chosen by TLC) replayed into bootstrap_metric/bootstrap_ci, plus seeded "
                "runs of every built-in sampling mode with metrics by name; distinct = distinct behaviours")
    ctx.extra["constants"] = par
    ctx.assumptions = ["the count metric (fp at a threshold) is integer valued so that the interval "
                       "formulas of BootCI apply; bc/bca to table precision"]
    return ctx.finish()


def replay(ctx: core.Ctx, body):
    core.import_repo()
    tables = core.VERIF / "gen" / "tables.json"
    c = body["case"]
    ids = iter(range(1, 10**9))
    if c.get("kind") == "seeded":
        evs, _ = seeded_behaviour(c["k"], 0, ids, body.get("seed", ctx.seed))
    elif c.get("kind") == "group":
        evs = group_behaviour(c["k"], 0, ids, body.get("seed", ctx.seed))
    else:
        evs = replay_behaviour(c["plan"], c.get("cid", 0), ids)
    ctx.judge("Trace_C14", evs, cases=[c], env_extra={"TABLES_FILE": str(tables)})
    return ctx.finish()
