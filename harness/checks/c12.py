"""C12 - group labels stay attached to their scores; groups partition the data.

Leg A: TLC on MC_C12 (object machine New/Swap/GetItem/Query and sampling machine
with one action per RNG call, labels carried by index) - exhaustive.
Leg B (spec -> code): every finished sampling run of the model is replayed with
numpy's RNG scripted to TLC's outcomes; `-simulate` behaviours of the object
machine (interleavings of swap / __getitem__ / group_cm) are replayed on one
real object.  Independent traces: random labelled score sets, seeded sampling.
Leg C: TLC validates (Trace_C12).
"""
from __future__ import annotations

import json
import re

import numpy as np

from .. import core, gamma, rngshim, simparse, tlaval
from .. import scoresdrv as sd
from .c11 import set_switch

PROP = "C12"
MC_CFG = """SPECIFICATION Spec
CONSTANTS
  Inputs <- {Inputs}
  Cap = 2
  MaxSteps = {MaxSteps}
  SinglePassThreshold = 2
INVARIANT InvSorted
INVARIANT InvLabelsAttached
INVARIANT InvPartition
INVARIANT InvGetItem
INVARIANT InvSampleWellFormed
INVARIANT InvSamplePartition
INVARIANT InvByGroup
INVARIANT InvByLabel
PROPERTY SwapKeepsPairs
CHECK_DEADLOCK FALSE
"""
TIERS = {"quick": dict(Inputs="InQuick", MaxSteps=2, nsim=120, nrand=60),
         "thorough": dict(Inputs="InThorough", MaxSteps=2, nsim=1000, nrand=600)}
G = gamma.ident()
METRICS = ["tpr", "fnr", "tnr", "fpr", "topr", "tonr"]
JUDGE_CONSTS = "CONSTANTS\n  SinglePassThreshold = {th}\n"
T2S = [-1, 0, 1, 2, 3, 4, 5, 6, 7]


LONG = ["a", "bbb", "cc-long-name", "d"]          # differing lengths, sorted like their indices


MIXOBJ = [1, "1", "b"]                            # object-dtype labels: the int 1 and the string "1" are different groups
MIXLIST = [7, "a", "b"]                           # plain lists mixing int and str: NumPy turns all of them into strings
BIGID = 2 ** 53                                   # 64-bit ids: neighbours are NOT distinct float64 values


def gname(i, style):
    if style == "strlen":
        return LONG[int(i)]
    if style == "bigint":
        return np.int64(BIGID + int(i))
    if style == "mixobj":
        return MIXOBJ[int(i)]
    if style == "mixlist":
        return MIXLIST[int(i)]
    return f"g{i}" if style == "str" else int(i)


def gidx(x, style=None):
    if style == "mixobj":
        return [j for j, v in enumerate(MIXOBJ) if type(v) is type(x) and v == x or
                (isinstance(v, int) and isinstance(x, (int, np.integer)) and not isinstance(x, bool) and v == x)][0]
    if style == "mixlist":
        return [str(v) for v in MIXLIST].index(str(x))
    if str(x) in LONG:
        return LONG.index(str(x))
    if isinstance(x, (int, np.integer)) and int(x) >= BIGID:
        return int(x) - BIGID
    if isinstance(x, (float, np.floating)):
        return int(x) - BIGID if x >= BIGID else (int(x) if x == int(x) else -999)
    return int(str(x).lstrip("g"))


def build_g(o, style, via="init", sdt=float, names=None):
    """o = {'pos': [[score, group], ...] (argument order), 'neg': ..., 'sc', 'ec'}"""
    from score_analysis import GroupScores
    ps = np.array([G(p[0]) for p in o["pos"]], dtype=float).astype(sdt)
    ns = np.array([G(p[0]) for p in o["neg"]], dtype=float).astype(sdt)
    pg = np.array([gname(p[1], style) for p in o["pos"]])
    ng = np.array([gname(p[1], style) for p in o["neg"]])
    if style == "mixobj":
        pg = np.array([gname(p[1], style) for p in o["pos"]] + [None], dtype=object)[:-1]
        ng = np.array([gname(p[1], style) for p in o["neg"]] + [None], dtype=object)[:-1]
    elif style == "mixlist":
        pg, ng = [gname(p[1], style) for p in o["pos"]], [gname(p[1], style) for p in o["neg"]]
    if via == "from_labels_sorted":
        # the documented fast path: data already ordered by score (stable, so the two classes interleave)
        labels = np.array([1] * len(ps) + [0] * len(ns))
        sc_, gr_ = np.concatenate([ps, ns]), np.concatenate([pg, ng])      # both classes non-empty here
        mix = np.argsort(np.arange(len(labels)) % 2, kind="stable")          # interleave, then stable sort by score
        order = mix[np.argsort(sc_[mix], kind="stable")]
        return GroupScores.from_labels(labels[order], sc_[order], gr_[order], pos_label=1,
                                       score_class=o["sc"], equal_class=o["ec"], is_sorted=True)
    if via == "from_labels":
        labels = np.array([1] * len(ps) + [0] * len(ns))
        order = np.argsort(np.arange(len(labels)) % 2, kind="stable")
        return GroupScores.from_labels(labels[order], np.concatenate([ps, ns])[order],
                                       np.concatenate([pg, ng])[order], pos_label=1,
                                       score_class=o["sc"], equal_class=o["ec"])
    kw = {} if not names else {"group_names": [gname(i, style) for i in names]}
    if names and style == "mixlist":
        kw = {"group_names": tuple(gname(i, style) for i in names)}
    if names and style == "mixobj":
        kw = {"group_names": np.array([gname(i, style) for i in names] + [None], dtype=object)[:-1]}
    return GroupScores(ps, ns, pos_groups=pg, neg_groups=ng, score_class=o["sc"], equal_class=o["ec"], **kw)


def alpha_g(s, inv, style=None):
    return {"pos": [[inv.get(float(x), -999), gidx(g, style)] for x, g in zip(s.pos, s.pos_groups)],
            "neg": [[inv.get(float(x), -999), gidx(g, style)] for x, g in zip(s.neg, s.neg_groups)],
            "groups": [gidx(g, style) for g in s.groups], "sc": s.score_class.value, "ec": s.equal_class.value}


EMPTY_G = {"pos": [], "neg": [], "groups": [], "sc": "pos", "ec": "pos"}


def cells(m):
    return [int(m[0, 0]), int(m[0, 1]), int(m[1, 0]), int(m[1, 1])]


class Beh:
    def __init__(self, ids, cid):
        self.ids, self.cid, self.evs = ids, cid, []
        self.inv = sd.inv_map(G, -2, 300)
        self.style = None

    def ev(self, op, **kw):
        e = {"id": next(self.ids), "cid": self.cid, "beh": self.cid, "op": op, "exc": "", "conc": "ident"}
        e.update(kw)
        self.evs.append(e)
        return e

    def new(self, o, style, h=1, via="init", sdt=float, names=None):
        e = self.ev("NewG", h=h, args={"pos": o["pos"], "neg": o["neg"], "sc": o["sc"], "ec": o["ec"],
                                       "names": list(names or [])},
                    via=via, style=style, post=dict(EMPTY_G), score_dtype=np.dtype(sdt).name)
        self.style = style if style in ("mixobj", "mixlist") else None
        try:
            s = build_g(o, style, via, sdt, names)
            e["post"] = alpha_g(s, self.inv, self.style)
            return s
        except Exception as ex:  # noqa
            e["exc"] = sd.exc_str(ex)
            return None

    def swap(self, s, h, h2):
        e = self.ev("SwapG", h=h, h2=h2, post=dict(EMPTY_G))
        try:
            s2 = s.swap()
            e["post"] = alpha_g(s2, self.inv, self.style)
            return s2
        except Exception as ex:  # noqa
            e["exc"] = sd.exc_str(ex)
            return None

    def getitem(self, s, h, g, style):
        e = self.ev("GetItem", h=h, g=int(g), out={"pos": [], "neg": [], "sc": "pos", "ec": "pos", "ep": -1, "en": -1})
        try:
            w = s[str(gname(g, style)) if style == "mixlist" else gname(g, style)]
            e["out"] = sd.alpha_obj(w, self.inv)
        except Exception as ex:  # noqa
            e["exc"] = sd.exc_str(ex)

    def group_cm(self, s, h, t2s, with_metrics=True):
        from score_analysis.group_scores import groupwise
        e = self.ev("GroupCM", h=h, t2=list(t2s), out=[], overall=[], metrics={}, groupwise={})
        try:
            th = np.array([G.thr(t) for t in t2s])
            m = np.asarray(s.group_cm(th).matrix)
            e["out"] = [[cells(c) for c in row] for row in m]
            e["overall"] = [cells(c) for c in np.asarray(s.cm(th).matrix)]
            if with_metrics:
                for name in METRICS:
                    a = np.asarray(getattr(s, "group_" + name)(th))
                    e["metrics"][name] = [[gamma.proj_rat(x, 1000) for x in row] for row in a]
                    if self.cid % 2 and name in ("fnr", "fpr"):
                        # the same metric as a user callable that returns integers where the rate is 0 or 1
                        def intish(sc_, threshold, name=name):
                            v = np.asarray(getattr(sc_, name)(threshold))
                            return v.astype(int) if np.all(np.isin(v, [0.0, 1.0])) else v
                        b = np.asarray(groupwise(intish)(s, threshold=th))
                    else:
                        b = np.asarray(groupwise(name)(s, threshold=th))
                    e["groupwise"][name] = [[gamma.proj_rat(x, 1000) for x in row] for row in b]
        except Exception as ex:  # noqa
            e["exc"] = sd.exc_str(ex)

    def sample(self, s, h, h2, c, script=None, np_seed=None):
        from score_analysis import BootstrapConfig
        self.ev("StartG", h=h, cfg={"method": c["method"], "strat": c["strat"]})
        built = {"h2": h2, "sample": dict(EMPTY_G), "t2": [0, 3, 4], "group_cm": [], "overall": [], "exc": ""}
        if np_seed is not None:
            np.random.seed(np_seed)
        with rngshim.active(script) as sh:
            try:
                cfg = BootstrapConfig(sampling_method=c["method"],
                                      stratified_sampling=None if c["strat"] == "none" else c["strat"])
                smp = s.bootstrap_sample(cfg)
                built["sample"] = alpha_g(smp, self.inv, self.style)
            except rngshim.ScriptMismatch as ex:
                built["exc"] = "ScriptMismatch: " + str(ex)
                smp = None
            except Exception as ex:  # noqa
                built["exc"] = sd.exc_str(ex)
                smp = None
        if smp is not None:
            try:
                th = np.array([G.thr(t) for t in built["t2"]])
                built["group_cm"] = [[cells(c_) for c_ in row] for row in np.asarray(smp.group_cm(th).matrix)]
                built["overall"] = [cells(c_) for c_ in np.asarray(smp.cm(th).matrix)]
            except Exception as ex:  # noqa
                built["exc"] = sd.exc_str(ex)
        if built["exc"].startswith("ScriptMismatch") and script is not None:
            # the implementation's RNG calls are not the modelled sequence (conformance drift): the scripted
            # outcome cannot be replayed - observe a run of the real generator instead
            del self.evs[-1]                                   # the StartG of the failed replay
            self.ev("ScriptDrift", why=built["exc"][:160])
            return self.sample(s, h, h2, c, script=None, np_seed=len(script) + 17)
        for d in sh.calls:
            self.ev("Draw", **d)
        self.ev("BuiltG", **built)
        return smp


def abstract_input(gobj_pos, gobj_neg, rnd):
    """argument order: a random permutation of the (sorted) abstract pairs"""
    p = [list(x) for x in gobj_pos]
    n = [list(x) for x in gobj_neg]
    rnd.shuffle(p)
    rnd.shuffle(n)
    return p, n


_STATE = re.compile(r"^State \d+:\n", re.M)


def sampled_states(dump_path):
    out = []
    for blk in _STATE.split(open(dump_path).read()):
        if 'mode = "sampled"' not in blk:
            continue
        out.append(tlaval.parse_state(blk))
    return out


def flat_script(gdraws):
    out = []
    for part in gdraws:
        for d in part:
            out.append(list(d) if isinstance(d, tuple) else d)
    return out


def run(ctx: core.Ctx):
    core.import_repo()
    par = TIERS[ctx.tier]
    dump = ctx.work / "states"
    cfg_txt = MC_CFG.format(**par)
    ctx.model("MC_C12", cfg_txt, args=["-dump", str(dump)], timeout=7200)
    states = sampled_states(str(dump) + ".dump")
    rnd = np.random.RandomState(ctx.seed + 3)
    ids = iter(range(1, 10**9))
    events, cases = [], []
    set_switch(2)
    try:
        # ---- every finished sampling run of the model, RNG scripted -------------------
        for st in states:
            o = st["obj"]
            p, n = abstract_input(o["pos"], o["neg"], rnd)
            a = {"pos": p, "neg": n, "sc": o["sc"], "ec": o["ec"]}
            c = {"method": st["cfg"]["method"], "strat": st["cfg"]["strat"]}
            b = Beh(ids, len(cases))
            style = "str" if len(cases) % 2 else "int"
            cases.append({"kind": "tlc_run", "input": a, "cfg": c, "script": flat_script(st["gdraws"]),
                          "style": style})
            s = b.new(a, style, via="from_labels" if len(cases) % 3 == 0 else "init")
            if s is not None:
                b.sample(s, 1, 2, c, script=cases[-1]["script"])
            events += b.evs
            ctx.nontrivial.add(json.dumps(cases[-1], sort_keys=True))
        ctx.extra["tlc_runs_replayed"] = len(states)
        # ---- simulated behaviours of the object machine ---------------------------------
        simdir = ctx.work / "sim"
        simdir.mkdir(exist_ok=True)
        simcfg = cfg_txt.replace(f"MaxSteps = {par['MaxSteps']}", "MaxSteps = 6")
        r = core.run_tlc("MC_C12", simcfg, ctx.work, "sim", workers=1, simulate=True,
                         args=["-simulate", f"file={simdir}/b,num={par['nsim']}", "-depth", "9",
                               "-seed", str(ctx.seed + 5)])
        if not r["ok"]:
            raise core.MachineryError("simulation of MC_C12 failed:\n" + r["out"][-2000:])
        for beh in simparse.load(str(simdir / "b")):
            o = beh[0]["state"]["obj"]
            p, n = abstract_input(o["pos"], o["neg"], rnd)
            a = {"pos": p, "neg": n, "sc": o["sc"], "ec": o["ec"]}
            b = Beh(ids, len(cases))
            style = "str" if len(cases) % 2 else "int"
            steps = []
            s = b.new(a, style)
            h = 1
            for stp in beh[1:]:
                if s is None:
                    break
                act, args = stp["action"], stp["args"]
                if act == "Swap":
                    s = b.swap(s, h, h + 1)
                    h += 1
                elif act == "GetItemA":
                    b.getitem(s, h, args[0], style)
                elif act == "Query":
                    b.group_cm(s, h, [args[0], -1, 7, 2])
                else:
                    break
                steps.append([act] + [str(x) for x in args])
            if s is not None:
                b.group_cm(s, h, T2S)
            cases.append({"kind": "tlc_behaviour", "input": a, "steps": steps, "style": style})
            events += b.evs
            ctx.nontrivial.add(json.dumps(cases[-1], sort_keys=True))
    finally:
        set_switch(100)
    ev_small = events
    # ---- independent traces: random labelled sets, seeded sampling (switch = 100) ---------
    ev_big = []
    for k in range(par["nrand"]):
        ng = int(rnd.randint(1, 4))
        npos, nneg = int(rnd.randint(ng, 8)), int(rnd.randint(ng, 8))
        neg_only = ng >= 2 and k % 4 == 0           # the last (longest-named) group has no positives
        ngp = ng - 1 if neg_only else ng
        pos = [[int(rnd.randint(0, 6)), int(i % ngp if i < ngp else rnd.randint(ngp))] for i in range(npos)]
        neg = [[int(rnd.randint(0, 6)), int(i % ng if i < ng else rnd.randint(ng))] for i in range(nneg)]
        a = {"pos": pos, "neg": neg, "sc": ["pos", "neg"][k % 2], "ec": ["pos", "neg"][(k // 2) % 2]}
        b = Beh(ids, len(cases))
        style = ["int", "str", "strlen"][k % 3] if not neg_only else "strlen"
        method = ["replacement", "single_pass", "dynamic"][k % 3]
        strat = ["none", "by_label", "by_group"][(k // 3) % 3]
        if neg_only:
            # a group without positives: only replacement sampling is defined on its empty class
            method, strat = ["replacement", "dynamic"][(k // 4) % 2], ["by_group", "none", "by_label"][(k // 8) % 3]
        c = {"method": method, "strat": strat}
        # score dtype: float64, or compact unsigned / signed integers (handed over unsorted)
        sdt = [float, np.uint8, float, np.int8, np.uint16][k % 5]
        cases.append({"kind": "seeded", "input": a, "cfg": c, "np_seed": int(ctx.seed + k), "style": style,
                      "sdt": np.dtype(sdt).name})
        # explicitly given group names, in an order that is not the sorted one
        names = None
        if k % 2 == 0 and k % 3 == 1 and ng >= 2:
            names = list(range(ng))[::-1] if ng == 2 else [1, 2, 0][:ng]
        cases[-1]["names"] = names
        s = b.new(a, style, via="from_labels" if k % 2 else "init", sdt=sdt, names=names)
        if s is not None:
            order = list(range(ng))
            rnd.shuffle(order)
            for g in order[: 1 + k % 2]:
                b.getitem(s, 1, g, style)
            b.group_cm(s, 1, [0, 1, 2, 3, 5, 7, 9, 11, -1])
            s2 = b.swap(s, 1, 2)
            if s2 is not None:
                b.group_cm(s2, 2, [0, 3, 6, 11], with_metrics=False)
            smp = b.sample(s, 1, 3, c, np_seed=int(ctx.seed + k))
            if smp is not None and k % 4 == 0:
                b.getitem(smp, 3, order[-1], style)
                b.group_cm(smp, 3, [1, 4, 8], with_metrics=False)
        ev_big += b.evs
    # 17..60 samples handed over already ordered by score (is_sorted=True), classes interleaved
    for k in range(12 if ctx.tier == "quick" else 120):
        n = [17, 18, 24, 33, 40, 60][k % 6]
        ng = 2 + k % 2
        vals = rnd.randint(0, [6, 30, 200][k % 3], n)
        lab = rnd.randint(0, 2, n)
        lab[:2] = [0, 1]
        pos = [[int(v), int(rnd.randint(ng))] for v, l_ in zip(vals, lab) if l_]
        neg = [[int(v), int(rnd.randint(ng))] for v, l_ in zip(vals, lab) if not l_]
        a = {"pos": pos, "neg": neg, "sc": ["pos", "neg"][k % 2], "ec": ["pos", "neg"][(k // 2) % 2]}
        b = Beh(ids, len(cases))
        style = ["int", "strlen"][k % 2]
        cases.append({"kind": "seeded", "input": a, "cfg": {"method": "replacement", "strat": "by_group"},
                      "np_seed": int(ctx.seed + k), "style": style, "via": "from_labels_sorted"})
        s_ = b.new(a, style, via="from_labels_sorted")
        if s_ is not None:
            for g_ in range(ng):
                b.getitem(s_, 1, g_, style)
            b.group_cm(s_, 1, [0, 1, 2, 3, 5, 7, 9, 11, -1], with_metrics=False)
        ev_big += b.evs
    # labels of mixed types: object arrays in which the int 1 and the string "1" are different groups, and
    # plain lists mixing ints and strings (NumPy turns those into strings, names included); explicit names
    for k in range(10 if ctx.tier == "quick" else 60):
        style = ["mixobj", "mixlist"][k % 2]
        ng = 3
        pos = [[int(rnd.randint(0, 6)), int(i % ng)] for i in range(int(rnd.randint(ng, 7)))]
        neg = [[int(rnd.randint(0, 6)), int((i + 1) % ng)] for i in range(int(rnd.randint(ng, 7)))]
        a = {"pos": pos, "neg": neg, "sc": ["pos", "neg"][(k // 2) % 2], "ec": ["pos", "neg"][(k // 4) % 2]}
        names = [[0, 1, 2], [2, 0, 1]][(k // 2) % 2]
        b = Beh(ids, len(cases))
        cases.append({"kind": "seeded", "input": a, "cfg": {"method": "replacement", "strat": "by_group"},
                      "np_seed": int(ctx.seed + k), "style": style, "via": "init", "names": names})
        s_ = b.new(a, style, names=names)
        if s_ is not None:
            for g_ in range(ng):
                b.getitem(s_, 1, g_, style)
            b.group_cm(s_, 1, [0, 1, 2, 3, 5, 7, 9, 11, -1], with_metrics=False)
            # (no sampling here: by_group sampling rebuilds the label arrays with np.full / concatenate, which
            #  turns mixed-type object labels into strings - labels 1 and "1" then coincide; see DESIGN section 6)
        ev_big += b.evs
    # one class completely empty, 64-bit integer group ids (neighbouring ids are one float64)
    for k in range(8 if ctx.tier == "quick" else 40):
        ng = 2 + k % 2
        items = [[int(rnd.randint(0, 6)), int(i % ng)] for i in range(int(rnd.randint(ng, 7)))]
        a = {"pos": [] if k % 2 == 0 else items, "neg": items if k % 2 == 0 else [],
             "sc": ["pos", "neg"][(k // 2) % 2], "ec": ["pos", "neg"][(k // 4) % 2]}
        b = Beh(ids, len(cases))
        cases.append({"kind": "seeded", "input": a, "cfg": {"method": "replacement", "strat": "none"},
                      "np_seed": int(ctx.seed + k), "style": "bigint", "via": "init"})
        s_ = b.new(a, "bigint")
        if s_ is not None:
            for g_ in range(ng):
                b.getitem(s_, 1, g_, "bigint")
            b.group_cm(s_, 1, [0, 1, 2, 3, 5, 7, 9, 11, -1], with_metrics=False)
        ev_big += b.evs
    # above the single-pass switch: 'dynamic' + by_group must still use replacement sampling
    for bidx in range(2 if ctx.tier == "quick" else 6):
        npos, nneg = 112 + 7 * bidx, 105 + 11 * bidx
        pos = [[int(rnd.randint(0, 200)), int(i % 3)] for i in range(npos)]
        neg = [[int(rnd.randint(0, 200)), int((i + 1) % 3)] for i in range(nneg)]
        a = {"pos": pos, "neg": neg, "sc": ["pos", "neg"][bidx % 2], "ec": "pos"}
        for method, strat in (("dynamic", "by_group"), ("dynamic", "none"), ("dynamic", "by_label")):
            b = Beh(ids, len(cases))
            cases.append({"kind": "seeded", "input": a, "cfg": {"method": method, "strat": strat},
                          "np_seed": int(ctx.seed + 900 + bidx), "style": "strlen"})
            s_ = b.new(a, "strlen")
            if s_ is not None:
                b.sample(s_, 1, 2, {"method": method, "strat": strat}, np_seed=int(ctx.seed + 900 + bidx))
            ev_big += b.evs
    ctx.sample([e for e in ev_small if e["cid"] == 0])
    ctx.judge("Trace_C12", ev_small, cases=cases, tag="small", batch=3000, consts_cfg=JUDGE_CONSTS.format(th=2))
    ctx.judge("Trace_C12", ev_big, cases=cases, tag="big", batch=3000, consts_cfg=JUDGE_CONSTS.format(th=100))
    ctx.rule = ("every finished sampling run of the bounded model replayed with a scripted RNG; simulated "
                "interleavings of swap/__getitem__/group_cm; random labelled sets with seeded sampling in "
                "all modes x stratifications; distinct = distinct TLC runs / behaviours")
    ctx.exhaustive = True
    ctx.extra["constants"] = {k: v for k, v in par.items()}
    ctx.assumptions = ["small-scope for the exhaustive part", "group names are ints or strings g<i>"]
    return ctx.finish()


def replay(ctx: core.Ctx, body):
    core.import_repo()
    c = body["case"]
    ids = iter(range(1, 10**9))
    b = Beh(ids, 0)
    small = c["kind"] != "seeded"
    if small:
        set_switch(2)
    try:
        s = b.new(c["input"], c.get("style", "int"), via=c.get("via", "init"), sdt=np.dtype(c.get("sdt", "float64")).type,
                  names=c.get("names"))
        if s is not None:
            if c.get("via") == "from_labels_sorted" or c.get("style") in ("bigint", "mixobj", "mixlist"):
                for g_ in sorted({p_[1] for p_ in c["input"]["pos"] + c["input"]["neg"]}):
                    b.getitem(s, 1, g_, c.get("style", "int"))
                b.group_cm(s, 1, [0, 1, 2, 3, 5, 7, 9, 11, -1], with_metrics=False)
            elif c["kind"] == "tlc_behaviour":
                h = 1
                for st in c["steps"]:
                    if st[0] == "Swap":
                        s = b.swap(s, h, h + 1)
                        h += 1
                    elif st[0] == "GetItemA":
                        b.getitem(s, h, int(st[1]), c.get("style", "int"))
                    elif st[0] == "Query":
                        b.group_cm(s, h, [int(st[1]), -1, 7, 2])
                b.group_cm(s, h, T2S)
            else:
                b.group_cm(s, 1, T2S)
                b.sample(s, 1, 2, c["cfg"], script=c.get("script"), np_seed=c.get("np_seed"))
    finally:
        set_switch(100)
    ctx.judge("Trace_C12", b.evs, cases=[c], consts_cfg=JUDGE_CONSTS.format(th=2 if small else 100))
    return ctx.finish()
