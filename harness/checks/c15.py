"""C15 - ROC curves are genuine operating points, ordered along the x-axis.

Leg A: TLC on MC_C15 (as-coded support-threshold selection: monotone x metric,
containment, point counts for every object x argument combination x x_axis).
Leg B: roc() is called on every object with every argument combination TLC
enumerated; the matrix the same object reports at each returned threshold is
recorded.  Leg C: TLC validates (Trace_C15).
"""
from __future__ import annotations

import json
from fractions import Fraction

import numpy as np

from .. import core, gamma
from .. import scoresdrv as sd

PROP = "C15"
MC_CFG = """SPECIFICATION Spec
CONSTANTS
  K = {K}
  MaxP = {MaxP}
  MaxN = {MaxN}
  EasyPairs <- {Easy}
INVARIANT InvMonotone
INVARIANT InvContains
INVARIANT InvCounts
INVARIANT InvSupplied
POSTCONDITION EmitCases
CHECK_DEADLOCK FALSE
"""
TIERS = {"quick": dict(K=3, MaxP=2, MaxN=2, Easy="EasyQuick"),
         "thorough": dict(K=4, MaxP=2, MaxN=2, Easy="EasyThorough")}
AXES = ["fnr", "fpr", "tnr", "tpr", "far", "frr", "tar", "trr"]
VIEWS = ["tpr", "tnr", "far", "frr", "tar", "trr"]


class T3Projector:
    """float threshold -> [n, d, k]; k = -1/+1 when the float sits within a few ulp
    below/above a score without being equal to it, else 0."""

    def __init__(self, g, score_vals):
        self.g = g
        self.sf = sorted(set(float(g(v)) for v in score_vals))

    def __call__(self, t):
        tl = np.longdouble(t)
        t = float(t)
        if t != t:
            return [0, 0, 0]
        if np.isinf(t):
            return [1000000 if t > 0 else -1000000, 1, 0]       # +-infinity
        x = self.g.inv(t)
        fr = Fraction(x).limit_denominator(2000)
        if abs(float(fr) - x) > 1e-9 * (1 + abs(x)):
            return [0, 0, 0]
        k = 0
        for s in self.sf:
            if tl != np.longdouble(s) and abs(t - s) <= 8 * np.spacing(abs(s) if s != 0 else 5e-324) + 1e-300:
                k = 1 if tl > np.longdouble(s) else -1
        return [fr.numerator, fr.denominator, k]


def conc_thr(g, t3):
    """abstract supplied threshold <<n, d, 0>> -> float"""
    n, d, _ = t3
    if abs(n) >= 1000000:
        return float("inf") if n > 0 else float("-inf")
    if d == 1:
        return float(g(n))
    lo = n // d
    fr = (n / d) - lo
    return float(g(lo)) + fr * (float(g(lo + 1)) - float(g(lo)))


def rats(a, den=2000):
    return [gamma.proj_rat(x, den, ulps=64) for x in np.asarray(a, dtype=float).reshape(-1)]


def roc_event(ev, s, o, a, x, g, x_call=None):
    from score_analysis import roc
    proj = T3Projector(g, list(o["pos"]) + list(o["neg"]))
    e = ev("roc", h=1, args=a, x=x,
           out={"thr": [], "cm": [], "fnr": [], "fpr": [], "inputs_untouched": True, **{v: [] for v in VIEWS}},
           t_fnr=[], t_fpr=[])
    try:
        kw = {}
        if a["fnr"]:
            kw["fnr"] = np.array([q[0] / q[1] for q in a["fnr"]])
        if a["fpr"]:
            kw["fpr"] = [q[0] / q[1] for q in a["fpr"]]          # list input
        if a["thr"]:
            kw["thresholds"] = np.array([conc_thr(g, t) for t in a["thr"]])
        # nb_points as a Python int or as a NumPy integer scalar (e.g. the result of np.minimum(n, k))
        kw["nb_points"] = None if a["nb"] == -1 else [a["nb"], np.int64(a["nb"]), np.int32(a["nb"])][e["id"] % 3]
        # the caller's arrays: sometimes read-only, sometimes a pandas Series; never modified by roc()
        keep = {k_: np.array(v_, copy=True) for k_, v_ in kw.items() if isinstance(v_, np.ndarray)}
        if e["id"] % 4 == 0:
            for v_ in kw.values():
                if isinstance(v_, np.ndarray):
                    v_.flags.writeable = False
        elif e["id"] % 4 == 1 and "thresholds" in kw:
            import pandas as pd
            kw["thresholds"] = pd.Series(kw["thresholds"], index=np.arange(len(kw["thresholds"]))[::-1])
        pos_before, neg_before = np.array(s.pos, copy=True), np.array(s.neg, copy=True)
        c = roc(s, x_axis=x_call or x, **kw)
        e["out"]["inputs_untouched"] = bool(all(np.array_equal(np.asarray(kw[k_]), v_) for k_, v_ in keep.items())
                                            and np.array_equal(s.pos, pos_before) and np.array_equal(s.neg, neg_before))
        th = np.asarray(c.thresholds)               # as returned (extended precision stays extended)
        e["out"]["thr"] = [proj(t) for t in th]
        m = np.asarray(s.cm(th).matrix)
        e["out"]["cm"] = [[int(r[0, 0]), int(r[0, 1]), int(r[1, 0]), int(r[1, 1])] for r in m]
        e["out"]["fnr"] = rats(c.fnr)
        e["out"]["fpr"] = rats(c.fpr)
        for v in VIEWS:
            e["out"][v] = rats(getattr(c, v))
        if a["fnr"]:
            e["t_fnr"] = [proj(t) for t in np.asarray(s.threshold_at_fnr(kw["fnr"]), dtype=float)]
        if a["fpr"]:
            e["t_fpr"] = [proj(t) for t in np.asarray(s.threshold_at_fpr(np.array(kw["fpr"])), dtype=float)]
    except Exception as ex:  # noqa
        e["exc"] = sd.exc_str(ex)
        return
    # history: the caller now writes into its own arrays (what it passed in, what it read from the
    # derived views) and reads the curve again
    e2 = ev("roc_reread", h=1, out={"thr": [], "fnr": [], "fpr": [], **{v: [] for v in VIEWS}})
    try:
        for v in ("tpr", "tnr", "tar", "trr"):               # the COMPUTED views (far / frr are the stored arrays)
            arr = getattr(c, v)
            if isinstance(arr, np.ndarray) and arr.flags.writeable:
                arr *= 100.0                                   # e.g. converted to percent for a plot
        for key in ("thresholds", "fnr"):
            if isinstance(kw.get(key), np.ndarray) and kw[key].size and kw[key].flags.writeable:
                kw[key] += 1000.0                              # the caller's buffer is reused
        e2["out"]["thr"] = [proj(t) for t in np.asarray(c.thresholds)]
        e2["out"]["fnr"] = rats(c.fnr)
        e2["out"]["fpr"] = rats(c.fpr)
        for v in VIEWS:
            e2["out"][v] = rats(getattr(c, v))
    except Exception as ex:  # noqa
        e2["exc"] = sd.exc_str(ex)


def events_for_case(o, cid, g, args, ids, axes_per_arg=2):
    from score_analysis import roc
    evs = []
    ev = sd.make_ev(evs, ids, cid, g)
    s = sd.new_event(ev, o, g, h=1)
    if s is None:
        return evs
    for j, a in enumerate(args):
        if a["nb"] == 100 and not (a["fnr"] or a["fpr"] or a["thr"]) and axes_per_arg == 1 and cid % 4:
            continue                        # quick tier: the 100-point default grid on every 4th object
        a = {"fnr": [list(q) for q in a["fnr"]], "fpr": [list(q) for q in a["fpr"]],
             "thr": [list(t) for t in a["thr"]], "nb": a["nb"]}
        for r in range(axes_per_arg):
            roc_event(ev, s, o, a, AXES[(cid + j + 3 * r) % 8], g)
    # an axis name in another letter case: either rejected (ValueError, as today) or treated as that axis
    xs = AXES[cid % 8]
    try:
        roc(s, x_axis=xs.upper(), nb_points=3)
        a_ = {"fnr": [], "fpr": [], "thr": [], "nb": 3}
        roc_event(ev, s, o, a_, xs, g, x_call=xs.upper())
    except ValueError:
        pass
    # history: another configuration is assigned to the (already queried) object
    o2 = sd.set_config_event(ev, s, o, g, h=1, k=cid)
    if o2 is not None:
        for j, a in enumerate(args[: 3 if axes_per_arg == 1 else len(args)]):
            a = {"fnr": [list(q) for q in a["fnr"]], "fpr": [list(q) for q in a["fpr"]],
                 "thr": [list(t) for t in a["thr"]], "nb": a["nb"]}
            roc_event(ev, s, o2, a, AXES[(cid + j) % 8], g)
    e = ev("roc_bad_axis", h=1)
    try:
        roc(s, x_axis="auc")
        e["exc"] = "none"
    except ValueError:
        e["exc"] = "ValueError"
    except Exception as ex:  # noqa
        e["exc"] = type(ex).__name__
    return evs


def run(ctx: core.Ctx):
    core.import_repo()
    par = TIERS[ctx.tier]
    cases_file = ctx.work / "cases.json"
    ctx.model("MC_C15", MC_CFG.format(**par), env={"CASES_FILE": cases_file}, timeout=7200)
    data = json.loads(cases_file.read_text())
    cases, args = data["cases"], data["args"]
    fam = [gamma.ident(), gamma.affine(2.0, 1.0), gamma.ident_int(), gamma.affine(0.5, -3.0), gamma.ident_f32(),
           gamma.ident_ld()]
    ids = iter(range(1, 10**9))
    events = []
    for cid, o in enumerate(cases):
        g = fam[(cid + ctx.seed) % len(fam)]
        events += events_for_case(o, cid, g, args, ids, axes_per_arg=1 if ctx.tier == "quick" else 2)
        vals = list(o["pos"]) + list(o["neg"])
        if len(set(vals)) < len(vals) or o["ep"] or o["en"]:
            ctx.nontrivial.add(json.dumps(o, sort_keys=True))
    ctx.sample(events[1])
    ctx.judge("Trace_C15", events, cases=cases, batch=2500)
    ctx.rule = ("every object of the bounded model (both classes non-empty) x every combination of "
                "supplied fnr/fpr/thresholds/nb_points of the model x x_axis names (rotating); "
                "non-trivial = object has ties or easy samples")
    ctx.exhaustive = True
    ctx.extra["constants"] = par
    ctx.extra["arg_combinations"] = len(args)
    ctx.assumptions = ["small-scope", "a threshold is identified by its rational value and whether it sits "
                       "an ulp below/above a score"]
    return ctx.finish()


def replay(ctx: core.Ctx, body):
    core.import_repo()
    o = body["case"]
    args = [body["event"]["args"]] if body.get("event") and "args" in body["event"] and "nb" in body["event"]["args"] else []
    if not args:
        args = [{"fnr": [], "fpr": [], "thr": [], "nb": nb} for nb in (-1, 1, 2, 7, 100)]
    ids = iter(range(1, 10**9))
    events = events_for_case(o, 0, gamma.ident(), args, ids, axes_per_arg=8)
    ctx.judge("Trace_C15", events, cases=[o])
    return ctx.finish()
