"""C03 - extreme operating points are honoured exactly.

Same model (MC_C02: invariant InvExtreme), same trace specification
(Trace_C02: clause C03.extreme, all three methods) as C02; the driver adds an
independent trace over a much wider range of easy-sample counts (the float
rescaling of the target depends on the exact (N, easy) pair) with targets at
and beyond both ends of the rate scale.
"""
from __future__ import annotations

import itertools
import json
import random
from fractions import Fraction

import numpy as np

from .. import core, gamma
from .. import scoresdrv as sd
from . import c02

PROP = "C03"
# a threshold that is NaN / not a number, or an exception, at a target of the extreme family is a C03 matter too
PREFIXES = ("C03.", "C02.shape_or_value", "C02.raised")
EXTREME = [Fraction(-1, 2), Fraction(0), Fraction(1), Fraction(3, 2)]


def wide_cases(tier, seed):
    """objects with 1..5 scored samples per class (ties and distinct) and easy
    counts 0..12 - sizes the exhaustive model does not reach."""
    rnd = random.Random(seed)
    easy = range(0, 13) if tier == "thorough" else (0, 1, 2, 3, 5, 6, 7, 12)
    out = []
    for npos, nneg in itertools.product(range(0, 6 if tier == "thorough" else 5), repeat=2):
        if npos + nneg == 0:
            continue
        for ep, en in itertools.product(easy, repeat=2):
            if tier != "thorough" and rnd.random() < 0.5:
                continue
            pos = sorted(rnd.randrange(0, 4) for _ in range(npos))
            neg = sorted(rnd.randrange(0, 4) for _ in range(nneg))
            sc, ec = rnd.choice(["pos", "neg"]), rnd.choice(["pos", "neg"])
            out.append({"pos": pos, "neg": neg, "ep": ep, "en": en, "sc": sc, "ec": ec})
    # class sizes N at which fl(fl(1/N) * N) != 1 (49, 98, 103, 107, 161, 187, ...): the 1/N shift
    # must not move a target of exactly 0 or 1 off the end of the scale
    for (npos, nneg) in ((49, 54), (98, 9), (107, 54), (54, 49), (9, 98)) + (((161, 26), (196, 1)) if tier == "thorough" else ()):
        for sc, ec in itertools.product(["pos", "neg"], repeat=2):
            ep, en = rnd.choice([(0, 0), (0, 0), (3, 0), (0, 5), (2, 7)])
            out.append({"pos": sorted(rnd.randrange(0, 12) for _ in range(npos)),
                        "neg": sorted(rnd.randrange(0, 12) for _ in range(nneg)),
                        "ep": ep, "en": en, "sc": sc, "ec": ec})
    return out


def run(ctx: core.Ctx):
    core.import_repo()
    par = c02.TIERS[ctx.tier]
    cases_file = ctx.work / "cases.json"
    ctx.model("MC_C02", c02.MC_CFG.format(**par), env={"CASES_FILE": cases_file})
    data = json.loads(cases_file.read_text())
    cases = data["cases"]
    fam = gamma.family(ctx.tier, ctx.seed)
    ids = iter(range(1, 10**9))
    events = []
    # (1) the objects of the bounded model, targets: grid q=1 (includes -1/N, 0, 1, 1+1/N)
    for cid, o in enumerate(cases):
        g = fam[(cid + ctx.seed) % len(fam)]
        events += c02.events_for_case(o, cid, g, [1], ids, extra_targets=EXTREME)
        ctx.nontrivial.add(json.dumps(o, sort_keys=True))
    # (2) independent trace: wide easy-sample counts, only the extreme targets
    wide = wide_cases(ctx.tier, ctx.seed)
    base = len(cases)
    # + scores of huge magnitude (2^55 apart, around 2^60): one ulp is then far more than 1.0
    fam2 = fam + [gamma.affine(2.0 ** 55, 2.0 ** 60), gamma.affine(2.0 ** 55, -2.0 ** 60)]
    for j, o in enumerate(wide):
        g = fam2[(j + ctx.seed) % len(fam2)]
        evs = []
        ev = sd.make_ev(evs, ids, base + j, g)
        s = sd.new_event(ev, o, g, **({"unsorted_flag": [np.False_, 0][j % 2]} if j % 4 == 1 else {}))
        if s is not None:
            for k, m in enumerate(sd.METRICS):
                if sd.rel_scores(o, m):
                    # the extreme targets are exact in every float format: also pass them as float32 /
                    # float16 arrays and as a list (the rescaling must not lose the end of the scale)
                    form = [None, lambda r: r.astype(np.float32), lambda r: r.astype(np.float16), list][(j + k) % 4]
                    sd.threshold_event(ev, s, o, m, [], g, extra_targets=EXTREME, form=form, with_inf=(j + k) % 3 == 0)
        events += evs
        ctx.nontrivial.add(json.dumps(o, sort_keys=True))
    allcases = cases + wide
    for e in events[1:3]:
        ctx.sample(e)
    ctx.judge("Trace_C02", events, cases=allcases, batch=2500)
    c02.filter_failures(ctx, PREFIXES)
    ctx.rule = ("model objects x 6 metrics x 3 methods x targets {-1/N..1+1/N grid, -1/2, 0, 1, 3/2}; "
                "plus objects with 0..5 scored samples per class and easy counts up to 12 at the "
                "extreme targets; distinct = distinct abstract objects (every one exercises r<=0 and r>=1)")
    ctx.exhaustive = True
    ctx.extra["constants"] = par
    ctx.extra["wide_objects"] = len(wide)
    ctx.assumptions = ["small-scope for the exhaustive part; the wide-easy-count part is a sample"]
    return ctx.finish()


def replay(ctx: core.Ctx, body):
    return c02.replay(ctx, body, prefixes=PREFIXES)
