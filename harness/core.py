"""Shared machinery: TLC runner, trace judge, verdicts, evidence, replay files.

Exit codes of a check: 0 = property held on everything explored (known findings
are printed as KNOWN-FINDING lines), 1 = violation (a `VIOLATION property=<id>
replay=<path>` line per distinct failing clause), 2 = machinery failure.
"""
from __future__ import annotations

import concurrent.futures as cf
import hashlib
import json
import os
import re
import shutil
import subprocess
import sys
import time
from pathlib import Path

from . import tlaval

VERIF = Path(__file__).resolve().parent.parent
SPEC = VERIF / "spec"
REPO = os.environ.get("VERIF_REPO", "/repo")
JAVA_CP = "/opt/veriftools/tla/tla2tools.jar:/opt/veriftools/tla/CommunityModules-deps.jar"
NCPU = os.cpu_count() or 4


class MachineryError(Exception):
    pass


def import_repo():
    """Import score_analysis from the repository working tree (not from the
    identical copy installed in site-packages)."""
    if REPO not in sys.path:
        sys.path.insert(0, REPO)
    sys.dont_write_bytecode = True
    import score_analysis  # noqa

    f = os.path.realpath(score_analysis.__file__)
    if not f.startswith(os.path.realpath(REPO) + os.sep):
        raise MachineryError(f"score_analysis imported from {f}, expected {REPO}")
    return score_analysis


# --------------------------------------------------------------------------- TLC
_FINAL = re.compile(r"(\d+) states generated, (\d+) distinct states found, (\d+) states left")
_DEPTH = re.compile(r"depth of the complete state graph search is (\d+)")


def run_tlc(module: str, cfg: str, workdir: Path, tag: str, *, env=None, workers=None,
            args=(), timeout=7200, heap="6g", gc_threads=None, simulate=False):
    """Run TLC on spec/<module>.tla with the given cfg text.  Returns a dict."""
    workdir.mkdir(parents=True, exist_ok=True)
    cfgp = workdir / f"{tag}.cfg"
    cfgp.write_text(cfg)
    meta = workdir / f"{tag}.meta"
    shutil.rmtree(meta, ignore_errors=True)
    workers = workers or NCPU
    if workers == 1:
        # judge processes: many run side by side, keep each JVM light
        cmd = ["java", "-XX:+UseSerialGC", f"-Xmx{heap}", "-Xms256m", "-Xss64m",
               "-XX:TieredStopAtLevel=1"]
    else:
        cmd = ["java", "-XX:+UseParallelGC", f"-Xmx{heap}"]
        if gc_threads:
            cmd.append(f"-XX:ParallelGCThreads={gc_threads}")
    cmd += ["-cp", JAVA_CP, "tlc2.TLC", "-workers", str(workers), "-metadir", str(meta),
            "-noGenerateSpecTE", "-config", str(cfgp), *args, str(SPEC / f"{module}.tla")]
    e = dict(os.environ)
    e.pop("JAVA_TOOL_OPTIONS", None)
    if env:
        e.update({k: str(v) for k, v in env.items()})
    t0 = time.time()
    try:
        p = subprocess.run(cmd, cwd=str(workdir), env=e, capture_output=True, text=True,
                           timeout=timeout)
    except subprocess.TimeoutExpired as ex:
        raise MachineryError(f"TLC timeout on {module} ({tag})") from ex
    finally:
        shutil.rmtree(meta, ignore_errors=True)
    out = p.stdout + p.stderr
    (workdir / f"{tag}.out").write_text(out)
    res = {"module": module, "tag": tag, "out": out, "rc": p.returncode,
           "wall": time.time() - t0, "generated": 0, "distinct": 0, "depth": 0}
    m = None
    for m in _FINAL.finditer(out):
        pass
    if m:
        res["generated"], res["distinct"] = int(m.group(1)), int(m.group(2))
    m = _DEPTH.search(out)
    if m:
        res["depth"] = int(m.group(1))
    res["ok"] = ("Model checking completed. No error has been found." in out) or (
        simulate and p.returncode == 0 and "Error:" not in out)
    res["errors"] = [ln for ln in out.splitlines() if ln.startswith("Error:")]
    return res


def model_check(module: str, cfg: str, workdir: Path, tag: str, **kw):
    r = run_tlc(module, cfg, workdir, tag, **kw)
    if not r["ok"]:
        tail = "\n".join(r["out"].splitlines()[-40:])
        raise MachineryError(f"model run {module}/{tag} did not complete cleanly:\n{tail}")
    return r


# ------------------------------------------------------------------------- judge
JUDGE_CFG = """SPECIFICATION Spec
POSTCONDITION AllConsumed
CHECK_DEADLOCK FALSE
"""


def _judge_batch(trace_module, path, n, workdir, tag, consts_cfg, env_extra=None):
    env = {"TRACE_FILE": path}
    env.update(env_extra or {})
    r = run_tlc(trace_module, JUDGE_CFG + consts_cfg, workdir, tag, env=env,
                workers=1, heap="2g", timeout=3600)
    fails = tlaval.extract_tuples(r["out"], "FAILED")
    stats = tlaval.extract_tuples(r["out"], "STAT")
    if not r["ok"] or r["distinct"] != n + 1:
        tail = "\n".join(r["out"].splitlines()[-30:])
        raise MachineryError(
            f"judge {trace_module}/{tag}: trace not fully consumed "
            f"({r['distinct']} states for {n} events)\n{tail}")
    return fails, stats, r


def judge(trace_module: str, events: list, workdir: Path, tag: str, *, batch=3000,
          consts_cfg: str = "", par=None, env_extra=None):
    """Validate recorded events against a trace specification.  Returns
    (failures, stats) where failures is a list of tuples ("FAILED", id, clause[, dev])."""
    workdir.mkdir(parents=True, exist_ok=True)
    if not events:
        return [], [], 0
    # batches are cut only at behaviour boundaries (events sharing a 'cid' and
    # a concretisation belong to one behaviour and share the judge's store)
    chunks, cur, last = [], [], None
    for ev in events:
        key = (ev.get("cid"), ev.get("conc"), ev.get("beh"))
        if len(cur) >= batch and key != last:
            chunks.append(cur)
            cur = []
        cur.append(ev)
        last = key
    if cur:
        chunks.append(cur)
    jobs = []
    for b, chunk in enumerate(chunks):
        path = workdir / f"{tag}.{b}.ndjson"
        with open(path, "w") as f:
            for ev in chunk:
                f.write(json.dumps(ev, separators=(",", ":")) + "\n")
        jobs.append((str(path), len(chunk), f"{tag}.{b}"))
    fails, stats = [], []
    with cf.ThreadPoolExecutor(max_workers=par or NCPU) as ex:
        futs = [ex.submit(_judge_batch, trace_module, p, n, workdir, t, consts_cfg, env_extra)
                for p, n, t in jobs]
        for fu in futs:
            f, s, _ = fu.result()
            fails += f
            stats += s
    for p, _, _ in jobs:
        try:
            os.unlink(p)
        except OSError:
            pass
    return fails, stats, len(jobs)


# ----------------------------------------------------------------------- context
class Ctx:
    def __init__(self, prop: str, tier: str, seed: int):
        self.prop, self.tier, self.seed = prop, tier, seed
        self.t0 = time.time()
        self.work = VERIF / "work" / f"{prop}.{os.getpid()}"
        shutil.rmtree(self.work, ignore_errors=True)
        self.work.mkdir(parents=True, exist_ok=True)
        self.states = 0
        self.transitions = 0
        self.traces = 0
        self.evaluations = 0
        self.nontrivial = set()
        self.nontrivial_extra = 0
        self.samples = []
        self.model_runs = []
        self.notes = []
        self.assumptions = []
        self.rule = ""
        self.exhaustive = False
        self.failures = []      # (clause, dev, event, case)
        self.drift = []
        self.judge_wall = 0.0
        self.ext = []
        self.extra = {}
        self.findings = load_findings()
        self.is_replay = False

    # -- leg A
    def model(self, module, cfg, tag=None, **kw):
        tag = tag or module
        r = model_check(module, cfg, self.work, tag, **kw)
        self.states += r["distinct"]
        self.transitions += r["generated"]
        self.model_runs.append({"module": module, "tag": tag, "distinct": r["distinct"],
                                "generated": r["generated"], "depth": r["depth"],
                                "wall_s": round(r["wall"], 1)})
        return r

    # -- leg C
    def judge(self, trace_module, events, cases=None, tag=None, **kw):
        """events: list of dicts with unique 'id' and optional 'cid' (case index)."""
        tag = tag or trace_module
        tj = time.time()
        fails, stats, nb = judge(trace_module, events, self.work, tag, **kw)
        self.judge_wall += time.time() - tj
        self.traces += nb
        self.evaluations += len(events)
        byid = None
        for f in fails:
            if byid is None:
                byid = {e["id"]: e for e in events}
            ev = byid.get(f[1])
            clause = f[2]
            dev = f[3] if len(f) > 3 else ""
            case = None
            if ev is not None and cases is not None and "cid" in ev:
                case = cases[ev["cid"]] if 0 <= ev["cid"] < len(cases) else cases[0]
            if clause.startswith("DRIFT."):
                self.drift.append((clause, ev, case))
            elif clause.startswith("EXT."):
                self.ext.append(clause)
            else:
                self.failures.append((clause, dev, ev, case))
        return fails, stats

    def sample(self, x, limit=4):
        if len(self.samples) < limit:
            self.samples.append(x)

    # -- verdict
    def finish(self, level="model_checking"):
        prop = self.prop
        known = {f["key"]: f for f in self.findings
                 if f.get("property") == prop and f.get("status") == "finding"}
        viol, hit = {}, {}
        for clause, dev, ev, case in self.failures:
            if dev and dev in known:
                hit.setdefault(dev, []).append((clause, ev, case))
            else:
                viol.setdefault(clause, []).append((dev, ev, case))
        for k, lst in hit.items():
            print(f"KNOWN-FINDING: property={prop} {k}: {known[k]['what']} "
                  f"({len(lst)} recorded events)")
        rc = 0
        rep_dir = VERIF / "replays"
        rep_dir.mkdir(exist_ok=True)
        for clause, lst in viol.items():
            dev, ev, case = lst[0]
            body = {"property": prop, "clause": clause, "dev": dev, "tier": self.tier,
                    "seed": self.seed, "count": len(lst), "event": ev, "case": case}
            h = hashlib.sha1(json.dumps(body, sort_keys=True, default=str).encode()).hexdigest()[:10]
            path = rep_dir / f"{prop}-{clause.replace('.', '_')}-{h}.json"
            path.write_text(json.dumps(body, indent=1, default=str))
            print(f"VIOLATION property={prop} replay={path}")
            print(f"  clause {clause}: {len(lst)} failing events; first: "
                  f"{json.dumps(ev, default=str)[:600]}")
            rc = 1
        if self.ext:
            print(f"SPEC-COVERAGE (not a verdict) {sorted(self.ext)}", file=sys.stderr)
        if self.drift:
            kinds = {}
            for c, ev, case in self.drift:
                kinds[c] = kinds.get(c, 0) + 1
            print(f"MODEL-DRIFT (not a verdict) {kinds}", file=sys.stderr)
        cov = {
            "states": self.states, "transitions": self.transitions,
            "traces_validated_against_impl": self.traces,
            "samples": self.samples or ["(none)"],
            "evaluations": self.evaluations,
            "distinct_nontrivial": len(self.nontrivial) + self.nontrivial_extra,
            "rule": self.rule, "exhaustive": self.exhaustive,
            "model_runs": self.model_runs,
            "known_findings_hit": sorted(hit),
            "model_drift": len(self.drift),
            "wall_split_s": {"model": round(sum(m["wall_s"] for m in self.model_runs), 1),
                             "judge": round(self.judge_wall, 1)},
            "spec_coverage_mismatches": sorted(self.ext),
            "failed_clauses": {c: len(l) for c, l in viol.items()},
        }
        cov.update(self.extra)
        ev = {"property_id": prop, "tier": self.tier, "seed": self.seed, "level": level,
              "coverage": cov, "assumptions": self.assumptions, "notes": self.notes,
              "wall_s": round(time.time() - self.t0, 2),
              "violations": sum(len(l) for l in viol.values())}
        if not self.is_replay and not getattr(self, "no_evidence", False) and not os.environ.get("VERIF_NO_EVIDENCE"):
            (VERIF / "evidence").mkdir(exist_ok=True)
            (VERIF / "evidence" / f"{prop}.json").write_text(
                json.dumps(ev, indent=1, default=str))
        if rc == 0:
            print(f"OK property={prop} tier={self.tier} states={self.states} "
                  f"events={self.evaluations} nontrivial={cov['distinct_nontrivial']} "
                  f"wall={ev['wall_s']}s")
        shutil.rmtree(self.work, ignore_errors=True)
        return rc


def load_findings():
    p = VERIF / "known_findings.json"
    if not p.exists():
        return []
    return json.loads(p.read_text()).get("findings", [])
