"""Concretisation (abstract integers -> floats) and projection (floats -> exact
integers / small rationals) between the specification's order types and the
floating point values the implementation works on.  Projection never looks at
an expected answer: it is a function of the output alone."""
from __future__ import annotations

import math
import random
from fractions import Fraction

import numpy as np


class Gamma:
    """Strictly increasing map from abstract score values (ints, possibly
    negative) to floats."""

    def __init__(self, name, fn, inv=None, dtype=float):
        self.name, self._fn, self._inv, self.dtype = name, fn, inv, dtype
        self._cache = {}

    def __call__(self, v: int):
        if v not in self._cache:
            self._cache[v] = self._fn(v)
        return self._cache[v]

    def arr(self, seq):
        return np.array([self(v) for v in seq], dtype=self.dtype)

    def inv(self, x: float) -> float:
        """abstract coordinate of a float (exact for affine maps up to rounding)."""
        return self._inv(x)

    # ---- thresholds in doubled coordinates -------------------------------------
    def thr(self, t2: int, flavour: str = "mid") -> float:
        """Float threshold realising doubled coordinate t2.  Even t2 = exactly the
        image of value t2/2.  Odd t2 = strictly between values (t2-1)/2 and
        (t2+1)/2: 'mid' the midpoint, 'lo' one ulp above the lower neighbour, 'hi'
        one ulp below the upper neighbour.  ulp neighbours are taken AFTER the map."""
        if t2 % 2 == 0:
            return float(self(t2 // 2))
        a, b = float(self((t2 - 1) // 2)), float(self((t2 + 1) // 2))
        if flavour == "lo":
            return float(np.nextafter(a, np.inf))
        if flavour == "hi":
            return float(np.nextafter(b, -np.inf))
        return (a + b) / 2.0


def ident():
    return Gamma("ident", float, lambda x: x)


def ident_int():
    return Gamma("ident_int", int, lambda x: x, dtype=int)


def ident_f32():
    return Gamma("ident_f32", lambda v: np.float32(v), lambda x: x, dtype=np.float32)


def ident_ld():
    """extended precision scores (np.longdouble): one ulp of theirs is far less than a float64 ulp"""
    return Gamma("ident_ld", lambda v: np.longdouble(v), lambda x: x, dtype=np.longdouble)


def ident_u8():
    return Gamma("ident_u8", lambda v: np.uint8(v) if 0 <= v < 256 else float(v), lambda x: x, dtype=np.uint8)


def ident_bool():
    """only for objects whose values are 0/1"""
    return Gamma("ident_bool", lambda v: bool(v) if v in (0, 1) else float(v), lambda x: x, dtype=bool)


def affine(a: float, b: float):
    return Gamma(f"affine({a},{b})", lambda v: a * v + b, lambda x: (x - b) / a)


def random_increasing(seed: int):
    rnd = random.Random(seed)
    base = rnd.uniform(-50, 50)
    steps = {}

    def fn(v):
        # cumulative random positive steps, deterministic per seed
        lo, hi = (0, v) if v >= 0 else (v, 0)
        s = 0.0
        for k in range(lo, hi):
            if k not in steps:
                steps[k] = random.Random(seed * 1000003 + k).uniform(1e-3, 7.0)
            s += steps[k]
        return base + s if v >= 0 else base - s

    return Gamma(f"random({seed})", fn, None)


def ulp_adjacent(base=0.5):
    """neighbouring scores are neighbouring doubles (v -> base + v ulps, base a power of two): there is
    NO float strictly between two neighbouring scores, so only on-score thresholds can be realised"""
    u = math.ulp(base)
    g = Gamma(f"ulp({base})", lambda v: base + v * u if v >= 0 else base + v * u / 2.0,
              lambda x: (x - base) / u if x >= base else (x - base) / (u / 2.0))
    mid = g.thr

    def thr(t2, flavour="mid"):
        if t2 % 2:
            raise ValueError("no float between neighbouring doubles")
        return mid(t2, flavour)
    g.thr = thr
    return g


def clustered(lo, hi, gap=1e-12):
    """the extreme abstract values lo / hi map to 0 and 1, everything in between into a cluster of
    distinct scores `gap` apart around 0.5 (spacing far below 1e-9 of the score range, far above an ulp)"""
    mid = (lo + hi) / 2.0
    return Gamma(f"clustered({lo},{hi})",
                 lambda v: float(v - lo) if v <= lo else 1.0 + (v - hi) if v >= hi else 0.5 + (v - mid) * gap, None)


def int_top(K, dtype=np.uint8):
    """narrow integer scores saturating at the top of their dtype: the largest abstract value K-1 maps to
    the dtype's maximum; abstract values beyond it (thresholds above every score) are floats"""
    top = int(np.iinfo(dtype).max)
    off = top - (K - 1)
    name = f"int_top({np.dtype(dtype).name})"
    return Gamma(name, lambda v: dtype(off + v) if np.iinfo(dtype).min <= off + v <= top else float(off + v),
                 lambda x: float(x) - off, dtype=dtype)


BIG = 2 ** 53


def big_int():
    """int64 scores above 2^53 (not representable as distinct float64 values); thresholds are
    int64 as well, so only on-score positions (even doubled coordinates) can be realised"""
    g = Gamma("big_int", lambda v: np.int64(BIG + 5 + v), None, dtype=np.int64)
    g.thr = lambda t2, flavour="mid": np.int64(BIG + 5 + t2 // 2) if t2 % 2 == 0 else \
        (np.int64(BIG + 5 + (t2 + 1) // 2) if flavour == "hi" else np.int64(BIG + 5 + (t2 - 1) // 2))
    return g


def half_mixed():
    """v -> v/2; drivers build the class whose values are all integral with an integer dtype"""
    return Gamma("half_mixed", lambda v: v / 2.0, lambda x: 2.0 * x)


def family(tier: str, seed: int):
    fam = [ident(), affine(2.5, -7.0), ident_int(), ident_f32(), ident_u8(), half_mixed()]
    if tier == "thorough":
        fam += [affine(0.1, 0.3), affine(1e-3, 1e3), random_increasing(seed)]
    return fam


# --------------------------------------------------------------------- projection
NAN_REC = [0, 0]          # rate whose denominator is zero
IRR_REC = [0, -1]         # a float that is not a small rational (never equal to anything)


def ulp_diff(x: float, y: float) -> float:
    if x == y:
        return 0.0
    u = math.ulp(max(abs(x), abs(y)))
    return abs(x - y) / u


def proj_rat(x, max_den=10000, ulps=4.0):
    """float -> [n, d] (d > 0) when x is within `ulps` of a rational with a small
    denominator, NAN_REC for NaN, IRR_REC otherwise."""
    x = float(x)
    if math.isnan(x):
        return list(NAN_REC)
    if math.isinf(x) or abs(x) > 2.0e5:
        return list(IRR_REC)          # (the judges' 32-bit rationals cannot hold it; never equal to anything)
    fr = Fraction(x).limit_denominator(max_den)
    if ulp_diff(float(fr), x) <= ulps or abs(float(fr) - x) <= 1e-15:
        return [fr.numerator, fr.denominator]
    return list(IRR_REC)


def proj_int(x):
    x = float(x)
    if x != x or math.isinf(x) or x != int(x):
        return None
    return int(x)


def fx(x, scale=10**6):
    """fixed-point projection round(x*scale); None for nan/inf."""
    x = float(x)
    if x != x or math.isinf(x):
        return None
    return int(round(x * scale))
