"""Numeric tables for the specifications, generated from the Python standard
library only (statistics.NormalDist, math) - an implementation independent of
SciPy, which is what the code under test uses.

  z6[a]        round(1e6 * Phi^-1(1 - a/2000))  for a = alpha in permille
  se6[n2][k2]  round(1e6 * sqrt(p (1-p) / n)),  p = k2/n2, n = n2/2 (half-unit counts)
  phi6[i]      round(1e6 * Phi(-6 + i/1000))    i = 0..12000
  ppf6[n][k]   round(1e6 * Phi^-1(k/n))         1 <= k < n <= NMAX_PPF
  root6[a][n]  round(1e6 * (a/1000)^(1/n))      (rule of three)
  sqrt6[m]     round(1e6 * sqrt(m))             m = 0..SQRT_MAX
  rootw6[a][n] round(1e6 * n * (1 - (a/1000)^(1/n)))  n in BIGN (rule of three, large classes)
"""
import json
import math
import sys
from statistics import NormalDist

ND = NormalDist()
S = 10**6
ALPHAS = [10, 20, 50, 100, 200, 500, 900]      # permille
TINY = {"1e-9": 1e-9, "1e-12": 1e-12, "1e-15": 1e-15}
N2MAX = 64
NMAX_PPF = 16
ROOT_NMAX = 220
SQRT_MAX = 400
BIGN = [700, 1000, 3000, 4000, 6003, 20002, 50003, 1000001]     # large class sizes (rule of three)


def build():
    t = {"scale": S}
    t["z6"] = {str(a): round(S * ND.inv_cdf(1 - a / 2000.0)) for a in ALPHAS}
    t["zl6"] = {str(a): round(S * ND.inv_cdf(a / 2000.0)) for a in ALPHAS}
    # tiny significance levels, keyed by name; by symmetry z(1 - a/2) = -z(a/2) (no cancellation)
    for name, a in TINY.items():
        t["z6"][name] = round(-S * ND.inv_cdf(a / 2.0))
        t["zl6"][name] = round(S * ND.inv_cdf(a / 2.0))
    se = []
    for n2 in range(0, N2MAX + 1):
        row = []
        for k2 in range(0, N2MAX + 1):
            if n2 == 0 or k2 > n2:
                row.append(0)
            else:
                p = k2 / n2
                row.append(round(S * math.sqrt(p * (1 - p) / (n2 / 2.0))))
        se.append(row)
    t["se6"] = se
    t["phi6"] = [round(S * ND.cdf(-6 + i / 1000.0)) for i in range(0, 12001)]
    ppf = []
    for n in range(0, NMAX_PPF + 1):
        row = []
        for k in range(0, NMAX_PPF + 1):
            row.append(round(S * ND.inv_cdf(k / n)) if 0 < k < n else 0)
        ppf.append(row)
    t["ppf6"] = ppf
    t["root6"] = {str(a): [0] + [round(S * math.pow(a / 1000.0, 1.0 / n)) for n in range(1, ROOT_NMAX + 1)]
                  for a in ALPHAS}
    t["sqrt6"] = [round(S * math.sqrt(m)) for m in range(0, SQRT_MAX + 1)]
    # rule of three on large classes, in units of 1/n: rootw6[a][n] = round(1e6 * n * (1 - (a/1000)^(1/n)))
    t["rootw6"] = {str(a): {str(n): round(S * n * -math.expm1(math.log(a / 1000.0) / n)) for n in BIGN}
                   for a in ALPHAS}
    return t


def main(path):
    json.dump(build(), open(path, "w"))


if __name__ == "__main__":
    main(sys.argv[1])
