"""Numeric tables for the specifications, generated from the Python standard
library only (statistics.NormalDist, math) - an implementation independent of
SciPy, which is what the code under test uses."""
import json
import math
import sys
from statistics import NormalDist

ND = NormalDist()
SCALE = 10**6


def main(path):
    t = {"scale": SCALE}
    json.dump(t, open(path, "w"))


if __name__ == "__main__":
    main(sys.argv[1])
