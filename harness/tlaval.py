"""Parser for TLA+ values as TLC prints them (PrintT output, -dump files and the
per-behaviour files written by `-simulate file=...`).  TLC pretty-prints long
values over several lines, so this is a small recursive-descent parser, not a
regular expression.

Supported: integers, strings, booleans, model values / identifiers, sequences
<<...>>, sets {...}, records [a |-> v, ...], functions (a :> v @@ b :> w),
integer intervals a..b.  Values are mapped to Python: tuple for sequences,
frozenset for sets, dict for records and functions.
"""
from __future__ import annotations

import re

_TOK = re.compile(
    r"""\s*(?:
      (?P<int>-?\d+)
    | (?P<str>"(?:[^"\\]|\\.)*")
    | (?P<op><<|>>|\|->|:>|@@|\.\.|[\[\]{}(),])
    | (?P<id>[A-Za-z_][A-Za-z0-9_!]*)
    )""",
    re.X,
)


class ParseError(ValueError):
    pass


def tokenize(text: str):
    pos = 0
    out = []
    n = len(text)
    while pos < n:
        m = _TOK.match(text, pos)
        if not m:
            if text[pos:].strip() == "":
                break
            raise ParseError(f"cannot tokenize at {text[pos:pos+40]!r}")
        pos = m.end()
        kind = m.lastgroup
        out.append((kind, m.group(kind)))
    return out


class _P:
    def __init__(self, toks):
        self.t = toks
        self.i = 0

    def peek(self):
        return self.t[self.i] if self.i < len(self.t) else (None, None)

    def eat(self, val=None):
        k, v = self.peek()
        if k is None or (val is not None and v != val):
            raise ParseError(f"expected {val!r}, got {v!r} at token {self.i}")
        self.i += 1
        return k, v

    def value(self):
        v = self.atom()
        # function construction  a :> b @@ c :> d
        if self.peek()[1] == ":>":
            d = {}
            self.eat(":>")
            d[_key(v)] = self.atom()
            while self.peek()[1] == "@@":
                self.eat("@@")
                k = self.atom()
                self.eat(":>")
                d[_key(k)] = self.atom()
            return d
        if self.peek()[1] == "..":
            self.eat("..")
            hi = self.atom()
            return frozenset(range(v, hi + 1))
        return v

    def atom(self):
        k, v = self.peek()
        if k == "int":
            self.i += 1
            return int(v)
        if k == "str":
            self.i += 1
            return bytes(v[1:-1], "utf-8").decode("unicode_escape")
        if k == "id":
            self.i += 1
            if v == "TRUE":
                return True
            if v == "FALSE":
                return False
            return v
        if v == "<<":
            self.eat("<<")
            items = []
            while self.peek()[1] != ">>":
                items.append(self.value())
                if self.peek()[1] == ",":
                    self.eat(",")
            self.eat(">>")
            return tuple(items)
        if v == "{":
            self.eat("{")
            items = []
            while self.peek()[1] != "}":
                items.append(self.value())
                if self.peek()[1] == ",":
                    self.eat(",")
            self.eat("}")
            return frozenset(_key(x) for x in items)
        if v == "[":
            self.eat("[")
            d = {}
            while self.peek()[1] != "]":
                _, name = self.eat()
                self.eat("|->")
                d[name] = self.value()
                if self.peek()[1] == ",":
                    self.eat(",")
            self.eat("]")
            return d
        if v == "(":
            self.eat("(")
            x = self.value()
            self.eat(")")
            return x
        raise ParseError(f"unexpected token {v!r}")


def _key(x):
    if isinstance(x, dict):
        return tuple(sorted((k, _key(v)) for k, v in x.items()))
    if isinstance(x, (list,)):
        return tuple(_key(v) for v in x)
    return x


def parse(text: str):
    p = _P(tokenize(text))
    v = p.value()
    if p.i != len(p.t):
        raise ParseError("trailing tokens")
    return v


def extract_tuples(text: str, head: str):
    """All balanced <<"head", ...>> values printed anywhere in TLC output."""
    out = []
    # TLC wraps long values over several lines and then writes `<< "head",`
    pat = re.compile(r'<<\s*"%s"' % re.escape(head))
    pos = 0
    while True:
        m = pat.search(text, pos)
        if not m:
            break
        i = m.start()
        depth = 0
        j = i
        in_str = False
        while j < len(text):
            c = text[j]
            if in_str:
                if c == "\\":
                    j += 1
                elif c == '"':
                    in_str = False
            elif c == '"':
                in_str = True
            elif text.startswith("<<", j):
                depth += 1
                j += 1
            elif text.startswith(">>", j):
                depth -= 1
                j += 1
                if depth == 0:
                    break
            j += 1
        out.append(parse(text[i : j + 1]))
        pos = j + 1
    return out


_STATE_VAR = re.compile(r"^\s*/\\\s*([A-Za-z_][A-Za-z0-9_]*)\s*=\s*", re.M)


def parse_state(block: str) -> dict:
    """A TLC state  /\\ v1 = ... /\\ v2 = ...  -> {v1: value, ...}."""
    ms = list(_STATE_VAR.finditer(block))
    st = {}
    for a, m in enumerate(ms):
        end = ms[a + 1].start() if a + 1 < len(ms) else len(block)
        st[m.group(1)] = parse(block[m.end() : end])
    return st
