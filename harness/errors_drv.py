"""Drives every documented error path named in spec/Errors.tla and records the
exception type actually raised (or 'none')."""
from __future__ import annotations

import warnings

import numpy as np


def events(ids):
    import pandas as pd
    from score_analysis import (BootstrapConfig, ConfusionMatrix, GroupScores, Scores, roc, showbias)
    from score_analysis.applications import FraudScores
    from score_analysis.experimental import BernoulliDataset, CorrelatedBernoullilDataset, NormalDataset
    from score_analysis.scores import BinaryLabel
    from score_analysis.utils import bootstrap_ci

    s = Scores([1.0, 2.0, 3.0], [0.5, 1.5])
    g = GroupScores([1.0, 2.0], [0.5, 1.5], pos_groups=["a", "b"], neg_groups=["a", "b"])
    df = pd.DataFrame({"g": ["a", "b"], "lab": [1, 0], "score": [0.2, 0.7]})
    M = [[1, 2], [3, 4]]
    calls = {
        "thr_unknown_method": lambda: s.threshold_at_tpr(0.5, method="nearest"),
        "thr_empty_class": lambda: Scores([], [1.0]).threshold_at_fnr(0.5),
        "tam_too_few_values": lambda: Scores([1.0], []).threshold_at_metric(0.5, "topr"),
        "find_root_precondition": lambda: Scores._find_root(lambda x: 1.0, 0.0, 1.0, True),
        "boot_smoothing_single_pass": lambda: s.bootstrap_sample(BootstrapConfig(sampling_method="single_pass", smoothing=True)),
        "boot_proportion_no_ratio": lambda: s.bootstrap_sample(BootstrapConfig(sampling_method="proportion")),
        "boot_unknown_method": lambda: s.bootstrap_sample(BootstrapConfig(sampling_method="jackknife")),
        "boot_not_str_not_callable": lambda: s.bootstrap_sample(BootstrapConfig(sampling_method=3)),
        "bootci_bc_without_estimate": lambda: bootstrap_ci(np.arange(5.0), None, 0.1, method="bc"),
        "bootci_unknown_method": lambda: bootstrap_ci(np.arange(5.0), 2.0, 0.1, method="student"),
        "cm_labels_and_matrix": lambda: ConfusionMatrix(labels=[0, 1], matrix=M),
        "cm_predictions_and_matrix": lambda: ConfusionMatrix(predictions=[0, 1], matrix=M),
        "cm_weights_and_matrix": lambda: ConfusionMatrix(weights=[1, 1], matrix=M),
        "cm_no_labels": lambda: ConfusionMatrix(predictions=[0, 1]),
        "cm_no_predictions": lambda: ConfusionMatrix(labels=[0, 1]),
        "cm_weights_length": lambda: ConfusionMatrix(labels=[0, 1], predictions=[0, 1], weights=[1]),
        "cm_ndim_lt_2": lambda: ConfusionMatrix(matrix=[1, 2]),
        "cm_not_square": lambda: ConfusionMatrix(matrix=[[1, 2, 3], [4, 5, 6]]),
        "cm_lt_2_classes": lambda: ConfusionMatrix(matrix=[[1]]),
        "cm_class_count_mismatch": lambda: ConfusionMatrix(matrix=M, classes=["a", "b", "c"]),
        "cm_duplicate_classes": lambda: ConfusionMatrix(matrix=M, classes=["a", "a"]),
        "cm_binary_not_two": lambda: ConfusionMatrix(matrix=np.ones((3, 3)), classes=[0, 1, 2], binary=True),
        "cm_dict_classes_mismatch": lambda: ConfusionMatrix(matrix={"a": {"a": 1, "b": 2}, "b": {"a": 0, "b": 1}}, classes=["a", "c"]),
        "cm_dict_rows_mismatch": lambda: ConfusionMatrix(matrix={"a": {"a": 1, "b": 2}, "b": {"a": 0, "c": 1}}),
        "cm_df_rows_cols_differ": lambda: ConfusionMatrix(matrix=pd.DataFrame(M, index=["a", "b"], columns=["a", "c"])),
        "cm_df_classes_mismatch": lambda: ConfusionMatrix(matrix=pd.DataFrame(M, index=["a", "b"], columns=["a", "b"]), classes=["a", "z"]),
        "cm_as_dict_on_binary": lambda: ConfusionMatrix(matrix=M, binary=True).tpr(as_dict=True),
        "gs_smoothing": lambda: g.bootstrap_sample(BootstrapConfig(sampling_method="replacement", smoothing=True)),
        "gs_proportion": lambda: g.bootstrap_sample(BootstrapConfig(sampling_method="proportion", ratio=0.5)),
        "gs_unknown_strat": lambda: g.bootstrap_sample(BootstrapConfig(sampling_method="replacement", stratified_sampling="by_colour")),
        "gs_unknown_group": lambda: g["zzz"],
        "gs_unknown_method": lambda: g.bootstrap_sample(BootstrapConfig(sampling_method="jackknife")),
        "showbias_missing_column": lambda: showbias(df, "nope", "lab", "score", "fnr", threshold=[0.5]),
        "showbias_not_a_frame": lambda: showbias({"g": []}, "g", "lab", "score", "fnr", threshold=[0.5]),
        "showbias_bad_normalize": lambda: showbias(df, "g", "lab", "score", "fnr", normalize="by_max", threshold=[0.5]),
        "showbias_bad_group_type": lambda: showbias(df.rename(columns={"g": 3}), 3, "lab", "score", "fnr", threshold=[0.5]),
        "roc_unknown_axis": lambda: roc(s, x_axis="auc"),
        "normal_roc_no_argument": lambda: NormalDataset(1.0).roc(),
        "normal_roc_both_arguments": lambda: NormalDataset(1.0).roc(fnr=np.array([0.1]), fpr=np.array([0.1])),
        "bernoulli_no_size": lambda: BernoulliDataset(0.3).sample(),
        "correlated_no_size": lambda: CorrelatedBernoullilDataset(0.3, 0.4, 0.1).sample(),
        "binary_label_unknown": lambda: BinaryLabel("maybe"),
        "fraud_out_of_range": lambda: FraudScores(genuines=[0.5, 1.5], frauds=[0.1]),
    }
    evs = []
    for name, fn in calls.items():
        e = {"id": next(ids), "cid": 0, "op": "Raise", "call": name, "exc": "none"}
        with warnings.catch_warnings():
            warnings.simplefilter("ignore")
            try:
                fn()
            except Exception as ex:  # noqa
                e["exc"] = type(ex).__name__
        evs.append(e)
    return evs
