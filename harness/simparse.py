"""Parser for the per-behaviour files TLC writes with `-simulate file=...`:
a sequence of steps, each `\\* <Action(params) line ...>` followed by
`STATE_n == /\\ var = value ...`."""
from __future__ import annotations

import glob
import re

from . import tlaval

_STEP = re.compile(r"^\\\* <(?P<label>.*?) line \d+, col \d+ to line \d+, col \d+ of module (?P<mod>\w+)>\s*$",
                   re.M)
_ACT = re.compile(r"^(?P<name>\w+)(?:\((?P<args>.*)\))?$")


def parse_label(label):
    m = _ACT.match(label.strip())
    if not m:
        return label.strip(), ()
    args = m.group("args")
    if args is None or args.strip() == "":
        return m.group("name"), ()
    return m.group("name"), tlaval.parse("<<" + args + ">>")


def parse_behaviour(text):
    steps = []
    ms = list(_STEP.finditer(text))
    for i, m in enumerate(ms):
        end = ms[i + 1].start() if i + 1 < len(ms) else len(text)
        block = text[m.end():end]
        k = block.find("==")
        block = block[k + 2:]
        block = re.sub(r"\n=+\s*$", "\n", block.strip() + "\n")
        name, args = parse_label(m.group("label"))
        steps.append({"action": name, "args": args, "state": tlaval.parse_state(block)})
    return steps


def load(prefix):
    out = []
    for f in sorted(glob.glob(prefix + "_*")):
        with open(f) as fh:
            out.append(parse_behaviour(fh.read()))
    return out
