"""Instrumentation of numpy's process-global RNG functions from outside the
library (no source hook needed): every np.random.{binomial,poisson,choice,
randint,normal} call made while the shim is active is recorded with its
parameters and result (mode 'record'), or answered from a script of outcomes
chosen by TLC (mode 'script')."""
from __future__ import annotations

import contextlib
from fractions import Fraction

import numpy as np

FUNCS = ["binomial", "poisson", "choice", "randint", "normal"]


class ScriptMismatch(Exception):
    pass


def _rat(p):
    if np.ndim(p) != 0:
        return [0, 1]                   # vectorised call (array-valued parameter): not a modelled call
    fr = Fraction(float(p)).limit_denominator(100000)
    return [fr.numerator, fr.denominator]


def _int(x):
    return int(x) if np.ndim(x) == 0 else -1


class Shim:
    def __init__(self, script=None, randint_max=False):
        self.randint_max = randint_max  # answer randint with the LARGEST value of the range actually asked for
        self.calls = []                 # normalised call descriptors + outcomes
        self.script = list(script) if script is not None else None
        self.pos = 0
        self.mismatch = None
        self._orig = {}

    # -- one wrapper per function --------------------------------------------------
    def _next(self):
        if self.pos >= len(self.script):
            raise ScriptMismatch("script exhausted")
        v = self.script[self.pos]
        self.pos += 1
        return v

    @staticmethod
    def _legal(v, size, lo, hi, what):
        """the scripted value must be a possible outcome of the call the implementation ACTUALLY makes; if it
        is not, the implementation's sequence of RNG calls is not the modelled one (ScriptMismatch: the
        driver then falls back to the real generator - conformance drift, not a verdict)"""
        if (size is None) != (not isinstance(v, (list, tuple))):
            raise ScriptMismatch(f"{what}: scalar/vector mismatch")
        vals = [v] if size is None else list(v)
        if size is not None and len(vals) != int(np.prod(size)):
            raise ScriptMismatch(f"{what}: {len(vals)} scripted values for size {size}")
        if any((not isinstance(x, (int, np.integer))) or x < lo or x >= hi for x in vals):
            raise ScriptMismatch(f"{what}: scripted value outside [{lo}, {hi})")

    def binomial(self, n, p, size=None):
        sz = 0 if size is None else int(np.prod(size))
        if self.script is None:
            out = self._orig["binomial"](n, p, size)
        else:
            v = self._next()
            if np.ndim(n) or np.ndim(p):
                raise ScriptMismatch("binomial: vectorised call (array-valued parameters)")
            self._legal(v, size, 0, int(n) + 1, "binomial")
            out = np.int64(v) if size is None else np.asarray(v, dtype=np.int64).reshape(size)
        if self.script is None and size is None and (np.ndim(n) or np.ndim(p)):
            sz = int(np.size(out))          # vectorised call: one outcome per parameter
        self.calls.append({"fn": "binomial", "n": _int(n), "p": _rat(p), "a": 0, "size": sz,
                           "out": int(out) if np.ndim(out) == 0 else [int(x) for x in np.asarray(out).reshape(-1)]})
        return out

    def poisson(self, lam=1.0, size=None):
        sz = 0 if size is None else int(np.prod(size))
        if self.script is None:
            out = self._orig["poisson"](lam, size)
        else:
            v = self._next()
            if np.ndim(lam):
                raise ScriptMismatch("poisson: vectorised call (array-valued rate)")
            self._legal(v, size, 0, 1 << 40, "poisson")
            out = np.int64(v) if size is None else np.asarray(v, dtype=np.int64).reshape(size)
        # lam = n * p with p = 1/size : record n = round(lam * size)
        n = int(round(float(lam) * max(sz, 1))) if np.ndim(lam) == 0 else -1
        self.calls.append({"fn": "poisson", "n": n, "p": [1, max(sz, 1)], "a": 0, "size": sz,
                           "out": int(out) if size is None else [int(x) for x in np.asarray(out).reshape(-1)]})
        return out

    def choice(self, a, size=None, replace=True, p=None):
        arr = None if np.ndim(a) == 0 else np.asarray(a)
        m = int(a) if arr is None else len(arr)
        if self.script is None:
            idx = self._orig["choice"](m, size, replace, p)     # same stream as choice(arr, ...)
        else:
            v = self._next()
            self._legal(v, size, 0, m, "choice")
            if not replace and size is not None and len(set(np.ravel(v).tolist())) != int(np.prod(size)):
                raise ScriptMismatch("choice without replacement: scripted outcome repeats an index")
            idx = np.int64(v) if size is None else np.asarray(v, dtype=np.int64).reshape(size)
        sz = 0 if size is None else int(np.prod(size))
        self.calls.append({"fn": "choice" if replace else "choice_norepl", "n": 0, "p": [0, 1], "a": m,
                           "size": sz,
                           "out": int(idx) if size is None else [int(x) for x in np.asarray(idx).reshape(-1)]})
        return idx if arr is None else arr[idx]

    def randint(self, low, high=None, size=None, dtype=int):
        if self.script is None:
            out = self._orig["randint"](low, high, size, dtype)
        elif np.ndim(low) or np.ndim(high):
            raise ScriptMismatch("randint: vectorised call (array-valued bounds)")
        else:
            v = self._next()
            lo_, hi_ = (0, int(low)) if high is None else (int(low), int(high))
            self._legal(v, size, lo_, hi_, "randint")
            out = np.int64(v) if size is None else np.asarray(v, dtype=np.int64).reshape(size)
        a = (_int(low) if high is None else _int(high) - _int(low)) if not (np.ndim(low) or np.ndim(high)) else -1
        if self.script is not None and self.randint_max and a > 0:
            top = (0 if high is None else int(low)) + a - 1               # a legal outcome of THIS call
            out = np.int64(top) if size is None else np.full(size, top, dtype=np.int64)
        self.calls.append({"fn": "randint", "n": 0, "p": [0, 1], "a": a, "size": 0 if size is None else int(np.prod(size)),
                           "out": int(out) if np.ndim(out) == 0 else [int(x) for x in np.asarray(out).reshape(-1)]})
        return out

    def normal(self, loc=0.0, scale=1.0, size=None):
        out = self._orig["normal"](loc, scale, size)
        sz = 0 if size is None else int(np.prod(size))
        self.calls.append({"fn": "normal", "n": 0, "p": [0, 1], "a": 0, "size": sz, "out": 0})
        return out


@contextlib.contextmanager
def active(script=None, randint_max=False):
    sh = Shim(script, randint_max)
    for f in FUNCS:
        sh._orig[f] = getattr(np.random, f)
        setattr(np.random, f, getattr(sh, f))
    try:
        yield sh
    finally:
        for f in FUNCS:
            setattr(np.random, f, sh._orig[f])
