"""Driver helpers shared by the Scores-family checks: build real objects from
abstract ones under a concretisation, project results back (alpha), record
threshold-setting events."""
from __future__ import annotations

import math
from fractions import Fraction

import numpy as np

from . import gamma

METRICS = ["tpr", "fnr", "tnr", "fpr", "topr", "tonr"]
ALIAS = {"tpr": "tar", "fnr": "frr", "tnr": "trr", "fpr": "far",
         "topr": "acceptance_rate", "tonr": "rejection_rate"}
METHODS = {"lin": "linear", "lo": "lower", "hi": "higher"}
EMPTY_POST = {"pos": [], "neg": [], "ep": 0, "en": 0, "sc": "pos", "ec": "pos"}


def exc_str(ex):
    return f"{type(ex).__name__}: {ex}"[:200]


def build(o, gam, cls=None, unsorted_flag=None, **extra):
    from score_analysis import Scores
    cls = cls or Scores
    pos, neg = gam.arr(o["pos"]), gam.arr(o["neg"])
    if unsorted_flag is not None:
        # the data handed over in descending order, is_sorted given as a falsy value that is not the
        # Python singleton False (a NumPy bool, as np.all(np.diff(x) >= 0) returns, or 0)
        pos, neg = pos[::-1].copy(), neg[::-1].copy()
        extra = dict(extra, is_sorted=unsorted_flag)
    if gam.name == "half_mixed":
        # integer-typed positives next to float negatives (possible when every positive is integral)
        if len(pos) and np.all(pos == np.round(pos)):
            pos = pos.astype(int)
        elif len(neg) and np.all(neg == np.round(neg)):
            neg = neg.astype(int)
    return cls(pos, neg, nb_easy_pos=o["ep"], nb_easy_neg=o["en"],
               score_class=o["sc"], equal_class=o["ec"], **extra)


class IntInv:
    """exact inverse for int64 images (float() would merge neighbours above 2^53)"""
    def __init__(self, gam, lo, hi):
        self.m = {int(gam(v)): v for v in range(lo, hi)}

    def get(self, x, default):
        try:
            if isinstance(x, int):
                return self.m.get(x, default)
            return self.m.get(int(x), default) if float(x) == int(x) else default
        except (OverflowError, ValueError):
            return default


def inv_map(gam, lo=-40, hi=40):
    if gam.name == "big_int":
        return IntInv(gam, lo, hi)
    return {float(gam(v)): v for v in range(lo, hi)}


def alpha_obj(s, inv):
    def back(a):
        if isinstance(inv, IntInv):
            return [inv.get(x, -999) for x in np.asarray(a).tolist()]
        return [inv.get(float(x), -999) for x in np.asarray(a).tolist()]
    # (a configuration label may have been assigned as the plain string the label type equals)
    return {"pos": back(s.pos), "neg": back(s.neg), "ep": int(s.nb_easy_pos),
            "en": int(s.nb_easy_neg), "sc": getattr(s.score_class, "value", s.score_class),
            "ec": getattr(s.equal_class, "value", s.equal_class)}


def as_args(o, sorted_=False):
    return {"p": list(o["pos"]), "n": list(o["neg"]), "ep": o["ep"], "en": o["en"],
            "sc": o["sc"], "ec": o["ec"], "sorted": sorted_}


def new_event(ev, o, gam, h=1, **extra):
    """Record a New event (constructor) and return the real object (or None)."""
    e = ev("New", h=h, args=as_args(o), post=dict(EMPTY_POST))
    try:
        s = build(o, gam, **extra)
        vals = list(o["pos"]) + list(o["neg"]) + [0]
        e["post"] = alpha_obj(s, inv_map(gam, min(vals) - 2, max(vals) + 3) if max(vals) > 35 or min(vals) < -35
                              else inv_map(gam))
        return s
    except Exception as ex:  # noqa
        e["exc"] = exc_str(ex)
        return None


def new_group_event(ev, o, gam, h=1, seed=0):
    """New event for the SUBCLASS GroupScores built from the same data given in a shuffled (unsorted)
    order with arbitrary group labels (no easy samples): every inherited Scores query must behave as on
    the plain object."""
    from score_analysis import GroupScores
    rnd = np.random.RandomState(seed)
    pp, pn = rnd.permutation(len(o["pos"])), rnd.permutation(len(o["neg"]))
    if len(pp) > 1 and list(pp) == sorted(pp):
        pp = pp[::-1]
    if len(pn) > 1 and list(pn) == sorted(pn):
        pn = pn[::-1]
    a = as_args(o)
    a["p"], a["n"] = [o["pos"][i] for i in pp], [o["neg"][i] for i in pn]
    e = ev("New", h=h, args=a, post=dict(EMPTY_POST), cls="GroupScores")
    try:
        s = GroupScores(gam.arr(a["p"]), gam.arr(a["n"]), pos_groups=[int(i) % 2 for i in pp],
                        neg_groups=[int(i) % 3 for i in pn], score_class=o["sc"], equal_class=o["ec"])
        vals = list(o["pos"]) + list(o["neg"]) + [0]
        e["post"] = alpha_obj(s, inv_map(gam, min(vals) - 2, max(vals) + 3) if max(vals) > 35 or min(vals) < -35
                              else inv_map(gam))
        return s
    except Exception as ex:  # noqa
        e["exc"] = exc_str(ex)
        return None


def set_config_event(ev, s, o, gam, h=1, k=0):
    """History step: the configuration attributes of the live object are re-assigned - as the plain strings
    the label type compares equal to (k even) or as enum members (k odd); k also selects which of the
    other three configurations.  Returns the new abstract object (or None)."""
    from score_analysis.scores import BinaryLabel
    others = [(a, b) for a in ("pos", "neg") for b in ("pos", "neg") if (a, b) != (o["sc"], o["ec"])]
    sc, ec = others[k % 3]
    e = ev("SetConfig", h=h, sc=sc, ec=ec, as_string=k % 2 == 0, post=dict(EMPTY_POST))
    try:
        if k % 2 == 0:
            s.score_class, s.equal_class = sc, ec
        else:
            s.score_class, s.equal_class = BinaryLabel(sc), BinaryLabel(ec)
        vals = list(o["pos"]) + list(o["neg"]) + [0]
        e["post"] = alpha_obj(s, inv_map(gam, min(vals) - 2, max(vals) + 3) if max(vals) > 35 or min(vals) < -35
                              else inv_map(gam))
        return dict(o, sc=sc, ec=ec)
    except Exception as ex:  # noqa
        e["exc"] = exc_str(ex)
        return None


def copy_event(ev, s, o, gam, h=1, h2=8, how="copy"):
    """History step: copy.copy / copy.deepcopy / pickle round trip of the live object.  Returns the copy."""
    import copy
    import pickle
    e = ev("Copy", h=h, h2=h2, how=how, post=dict(EMPTY_POST))
    try:
        s2 = copy.copy(s) if how == "copy" else copy.deepcopy(s) if how == "deepcopy" else pickle.loads(pickle.dumps(s))
        vals = list(o["pos"]) + list(o["neg"]) + [0]
        e["post"] = alpha_obj(s2, inv_map(gam, min(vals) - 2, max(vals) + 3) if max(vals) > 35 or min(vals) < -35
                              else inv_map(gam))
        return s2
    except Exception as ex:  # noqa
        e["exc"] = exc_str(ex)
        return None


def set_scores_event(ev, s, o, gam, cls_="neg", h=1):
    """History step: one score array of the live object is re-bound to a NEW sorted array (its lowest score
    dropped, one higher score added; via the FraudScores setters when the object has them).  Returns the
    new abstract object (or None)."""
    old = list(o[cls_])
    top = max(list(o["pos"]) + list(o["neg"]) + [0])
    new = sorted(old[1:] + [top + 1]) if old else [top + 1]
    e = ev("SetScores", h=h, cls=cls_, seq=new, post=dict(EMPTY_POST))
    try:
        attr = {"pos": "genuines", "neg": "frauds"}[cls_] if hasattr(type(s), "genuines") else cls_
        setattr(s, attr, gam.arr(new))
        o2 = dict(o, **{cls_: new})
        vals = list(o2["pos"]) + list(o2["neg"]) + [0]
        e["post"] = alpha_obj(s, inv_map(gam, min(vals) - 2, max(vals) + 3) if max(vals) > 35 or min(vals) < -35
                              else inv_map(gam))
        return o2
    except Exception as ex:  # noqa
        e["exc"] = exc_str(ex)
        return None


def shift_event(ev, s, o, gam, d=2, h=1):
    """History step: a constant is added to every score IN PLACE (the arrays keep their identity and
    dtype).  Only for affine value maps.  Returns the new abstract object (or None)."""
    delta = float(gam(d)) - float(gam(0))
    if any(float(gam(v)) + delta != float(gam(v + d)) for v in list(o["pos"]) + list(o["neg"])):
        return None          # the shift is not exact in floating point under this value map: not a history to judge
    e = ev("ShiftScores", h=h, d=d, post=dict(EMPTY_POST))
    try:
        for arr_ in (s.pos, s.neg):
            arr_ += np.asarray(delta).astype(arr_.dtype)
        o2 = dict(o, pos=[v + d for v in o["pos"]], neg=[v + d for v in o["neg"]])
        vals = list(o2["pos"]) + list(o2["neg"]) + [0]
        e["post"] = alpha_obj(s, inv_map(gam, min(vals) - 2, max(vals) + 3) if max(vals) > 35 or min(vals) < -35
                              else inv_map(gam))
        return o2
    except Exception as ex:  # noqa
        e["exc"] = exc_str(ex)
        return None


def rel_scores(o, m):
    if m in ("tpr", "fnr"):
        return list(o["pos"])
    if m in ("tnr", "fpr"):
        return list(o["neg"])
    return sorted(list(o["pos"]) + list(o["neg"]))


def metric_pop(o, m):
    if m in ("tpr", "fnr"):
        return len(o["pos"]) + o["ep"]
    if m in ("tnr", "fpr"):
        return len(o["neg"]) + o["en"]
    return len(o["pos"]) + len(o["neg"]) + o["ep"] + o["en"]


def targets(o, m, qs):
    """Sorted distinct targets k/(q*N), k=-q..q*N+q (same grid as MC_C02.TargetsOf)."""
    N = metric_pop(o, m)
    S = set()
    for q in qs:
        for k in range(-q, q * N + q + 1):
            S.add(Fraction(k, q * N))
    return sorted(S)


def counts(s, m, t):
    """Metric count (integer numerator) the object itself reports at thresholds t."""
    c = s.cm(t).matrix
    if m == "tpr":
        return c[..., 0, 0]
    if m == "fnr":
        return c[..., 0, 1]
    if m == "fpr":
        return c[..., 1, 0]
    if m == "tnr":
        return c[..., 1, 1]
    if m == "topr":
        return c[..., 0, 0] + c[..., 1, 0]
    return c[..., 0, 1] + c[..., 1, 1]


class ThrProjector:
    """float threshold -> [kind, n, d] in abstract coordinates."""

    def __init__(self, gam, knots_abs):
        self.gam = gam
        self.ka = sorted(set(knots_abs))
        self.kf = [float(gam(v)) for v in self.ka]
        self.below = float(np.nextafter(self.kf[0], -np.inf))
        self.above = float(np.nextafter(self.kf[-1], np.inf))

    def abs_coord(self, t):
        if self.gam._inv is not None:
            return self.gam.inv(t)
        # piecewise-linear inverse through the object's own score knots
        kf, ka = self.kf, self.ka
        if len(kf) == 1:
            return ka[0] + (t - kf[0])
        i = int(np.clip(np.searchsorted(kf, t, side="right") - 1, 0, len(kf) - 2))
        return ka[i] + (t - kf[i]) / (kf[i + 1] - kf[i]) * (ka[i + 1] - ka[i])

    def __call__(self, t):
        """[n, d] with d > 0, or [0, 0] when t is NaN/inf/not on a small-rational
        lattice.  The sentinels one ulp outside the scores project to the extreme
        score itself: ulp-level behaviour is carried by the recorded counts."""
        t = float(t)
        if t != t or math.isinf(t):
            return [0, 0]
        x = self.abs_coord(t)
        fr = Fraction(x).limit_denominator(1000)
        if abs(float(fr) - x) <= 1e-9 * (1.0 + abs(x)):
            return [fr.numerator, fr.denominator]
        return [0, 0]

    def is_score_or_sentinel(self, t):
        """an actual score, or a sentinel just outside the score range - both "up to a few ulp" (the
        property's own comparison rule: one ulp is what the code uses today, not what is claimed)"""
        t = float(t)
        if t in self.kf or t == self.below or t == self.above:
            return True
        return any(gamma.ulp_diff(t, k) <= 8.0 for k in self.kf)


def step(t, k):
    """t moved by k ulps (k may be negative)."""
    t = np.asarray(t, dtype=float)
    d = np.inf if k > 0 else -np.inf
    for _ in range(abs(k)):
        t = np.nextafter(t, d)
    return t


def threshold_event(ev, s, o, m, qs, gam, h=1, extra_targets=(), form=None, only_targets=None, order=None,
                    with_inf=False):
    """One vectorised threshold_at_<m> query per method, with the counts the same
    object reports at, just below and just above every returned threshold."""
    rs = sorted(set(only_targets)) if only_targets is not None else sorted(set(targets(o, m, qs)) | set(extra_targets))
    BIGR = Fraction(1000)
    if with_inf:                  # targets -inf / +inf travel as -1000 / +1000 (any r <= 0 resp. r >= 1 is the same claim)
        rs = [-BIGR] + rs + [BIGR]
    e = ev("threshold", h=h, m=m, r=[[f.numerator, f.denominator] for f in rs],
           lin=[], lo=[], hi=[], c={"lin": [], "lo": [], "hi": []},
           lo_is_score=[], hi_is_score=[], alias_same=True, scalar_same=True, targets_untouched=True)
    try:
        rf = np.array([f.numerator / f.denominator for f in rs])
        if with_inf:
            rf[0], rf[-1] = -np.inf, np.inf
        S = rel_scores(o, m)
        proj = ThrProjector(gam, S)
        fn = getattr(s, "threshold_at_" + m)
        arg = rf if form is None else form(rf)
        if order is not None:                   # targets passed in the given (unsorted) order, as a 2-D
            arg = rf[np.asarray(order)]         # array when their number is even
            if len(rf) % 2 == 0:
                arg = arg.reshape(2, -1)
        # the caller's target array: sometimes read-only (np.broadcast_to / memmaps / pandas give such arrays),
        # never modified by a query
        keep = np.array(arg, copy=True) if isinstance(arg, np.ndarray) else None
        if keep is not None and (e["id"] % 3 == 0) and arg.flags.owndata:
            arg.flags.writeable = False
        for key, method in METHODS.items():
            t = np.asarray(fn(arg, method=method), dtype=float)
            if keep is not None and not np.array_equal(arg, keep):
                e["targets_untouched"] = False
            if order is not None and t.shape == arg.shape:
                back = np.empty(len(rf))
                back[np.asarray(order)] = t.ravel()
                t = back
            if t.shape != rf.shape:
                raise AssertionError(f"shape {t.shape} for targets {rf.shape}")
            e[key] = [proj(x) for x in t]
            c = counts(s, m, t)
            # "just below / just above": a few ulp away, because interpolating
            # between two equal scores may return the score +- one ulp
            cb = counts(s, m, step(t, -4))
            ca = counts(s, m, step(t, 4))
            e["c"][key] = [[int(a), int(b), int(d)] for a, b, d in zip(c, cb, ca)]
            if key != "lin":
                e[key + "_is_score"] = [bool(proj.is_score_or_sentinel(x)) for x in t]
            if key == "lin":
                ta = np.asarray(getattr(s, "threshold_at_" + ALIAS[m])(rf, method=method))
                e["alias_same"] = bool(np.array_equal(ta, t))
            # scalar targets give plain scalars equal to the vector elements (every method,
            # boundary and interior targets)
            ok = e["scalar_same"]
            for j in sorted({0, 1, len(rs) // 2, len(rs) - 2, len(rs) - 1} & set(range(len(rs)))):
                x = fn(float(rf[j]), method=method)
                ok = ok and np.ndim(x) == 0 and not isinstance(x, np.ndarray) and float(x) == float(t[j])
                if rs[j].denominator == 1:                      # a Python int target (0, 1, ...)
                    xi = fn(int(rs[j]), method=method)
                    ok = ok and np.ndim(xi) == 0 and float(xi) == float(t[j])
            e["scalar_same"] = bool(ok)
    except Exception as ex:  # noqa
        e["exc"] = exc_str(ex)
    return e


def threshold_big_event(ev, s, m, pop, ks, h=1):
    """Threshold setting on an object too large to be mirrored in the specification (1e5..1e6 scores):
    the judge works on the counts alone.  Targets are k/(2*pop) for k in ks (goal2 = k = twice the
    target count); low/high = the counts the same object reports beyond both ends of the scores."""
    ks = sorted(set(ks))
    e = ev("threshold_big", h=h, m=m, pop=int(pop), goal2=[int(k) for k in ks], low=0, high=0,
           c={"lin": [], "lo": [], "hi": []}, scalar_same=True)
    try:
        rf = np.array([k / (2.0 * pop) for k in ks])
        ends = counts(s, m, np.array([-np.inf, np.inf]))
        e["low"], e["high"] = int(min(ends)), int(max(ends))
        fn = getattr(s, "threshold_at_" + m)
        for key, method in METHODS.items():
            t = np.asarray(fn(rf, method=method), dtype=float)
            if t.shape != rf.shape:
                raise AssertionError(f"shape {t.shape} for targets {rf.shape}")
            c, cb, ca = counts(s, m, t), counts(s, m, step(t, -4)), counts(s, m, step(t, 4))
            e["c"][key] = [[int(a), int(b), int(d)] for a, b, d in zip(c, cb, ca)]
            ok = e["scalar_same"]
            for j in sorted({0, 1, len(ks) // 2, len(ks) - 1} & set(range(len(ks)))):
                x = fn(float(rf[j]), method=method)
                ok = ok and np.ndim(x) == 0 and float(x) == float(t[j])
            e["scalar_same"] = bool(ok)
    except Exception as ex:  # noqa
        e["exc"] = exc_str(ex)
    return e


def make_ev(evs, ids, cid, gam):
    def ev(op, **kw):
        e = {"id": next(ids), "cid": cid, "op": op, "exc": "", "conc": gam.name}
        e.update(kw)
        evs.append(e)
        return e
    return ev
