#!/bin/sh
# tools/seedall.sh Cxx "<checks>"  : confirm + run both sub-agent seeds for a property, keep them
id=$1; shift
for k in 1 2; do
  if [ -f /tmp/sa/$id.out/patch$k.diff ]; then
    echo "=== $id seed $k"
    python3 /verif/tools/seedtest.py /tmp/sa/$id.out/patch$k.diff /tmp/sa/$id.out/demo$k.py "$@" --tests --keep=$id-$k --meta=/tmp/sa/$id.out/meta$k.json 2>&1 | cut -c1-300
  fi
done
