#!/usr/bin/env python3
"""Regenerates /verif/MANIFEST.json from the table below (one source of truth)."""
import json
import os

HERE = os.path.dirname(os.path.dirname(os.path.abspath(__file__)))

# property -> (technique, level text, level note, design ref)
TECH = "TLA+ bounded model (TLC exhaustive) + spec->code replay + TLC trace validation"
NOTE = ("Exhaustive only within the model constants (small-scope hypothesis); float behaviour is "
        "exercised through the concretisation family (identity/affine/int/float32/random maps, ulp "
        "neighbours), not proved; trusts TLC, the Python driver's projection of results to "
        "integers/small rationals, and NumPy's nextafter.")
CHECKS = {
    "C01": (TECH,
        "TLC exhaustively checks the bounded Scores model (constructor in any argument order, "
        "is_sorted fast path, swap; binary-search technique = documented counting rule, totals, "
        "pointwise sum at every threshold position); every argument tuple TLC enumerated is then "
        "replayed into the real Scores/from_labels/swap/cm/rate/pointwise_cm code under several "
        "float concretisations (on-score, one-ulp, +-inf thresholds), objects the library itself "
        "produces (bootstrap samples in every mode) are adopted as well, and the recorded trace is "
        "validated by TLC against the trace specification, whose oracle is CountCM.",
        NOTE, "DESIGN.md 5 (C01)"),
    "C02": (TECH,
        "TLC checks the exact-rational model of threshold setting (Rescale . Normalise . Invert) "
        "for round trip within one sample, coherence of lower/higher/linear, convexity and "
        "monotonicity over every object x metric x method x target of the bounded model; the same "
        "objects and target grids are replayed into the real code and TLC judges the recorded "
        "thresholds together with the counts the same object reports at and around them.",
        NOTE, "DESIGN.md 5 (C02)"),
    "C03": (TECH,
        "Same model and judge as C02 (invariant InvExtreme / clause C03.extreme for all three "
        "methods) plus an independent trace over easy-sample counts up to 12, where the float "
        "rescaling of the target depends on the exact (N, easy) pair.",
        NOTE, "DESIGN.md 5 (C03)"),
    "C08": (TECH,
        "TLC checks swap / negate relations as action properties of the bounded model; the driver "
        "probes every object, its swap(), its negated image and a second affine concretisation, "
        "and TLC validates the relations between the RECORDED probes (matrices, rates, linear "
        "thresholds, EER, AUC).",
        NOTE, "DESIGN.md 5 (C08)"),
    "C09": (TECH,
        "TLC checks the Materialise relation (same matrices inside the materialised range, same "
        "linear thresholds within the scored range) on the bounded model; every object is built "
        "for real both with declared easy samples and with those samples materialised, and TLC "
        "validates the relation between the recorded probes incl. full and partial AUC.",
        NOTE, "DESIGN.md 5 (C09)"),
    "C04": (TECH,
        "TLC checks complements, range, NaN locus, nesting/mirroring of the fixed-point interval model "
        "and scale invariance on every 2x2 matrix over a small value set; every matrix is evaluated by "
        "metrics.* and ConfusionMatrix(binary=True) (int/float, shapes (), (n,), (a,b), scaled by 1/2, "
        "1e-9, 4^10) and TLC validates recorded rationals and fixed-point limits against tables "
        "generated from the Python standard library.",
        NOTE + " z and sqrt are tabulated (1e-6); half-widths are decided to ~2e-6.", "DESIGN.md 5 (C04)"),
    "C05": (TECH,
        "TLC checks a matrix growing one weighted sample at a time (locality, population, one-vs-all "
        "structure, permutation equivariance); every sample sequence is built by the real "
        "ConfusionMatrix, re-entered as list/dict/DataFrame under a permutation, binarised, its "
        "per-class metrics taken as array/dict/permuted/stacked, and TLC validates the record.",
        NOTE, "DESIGN.md 5 (C05)"),
    "C06": (TECH,
        "TLC checks on every tie-free object that the crossing-point property is satisfiable and "
        "that the as-coded EER (shortcut, sign, cap, exact root of the piecewise-linear difference "
        "of the inverse functions) is admissible; eer() is run on the real object, an affine image "
        "and the negated object, and TLC judges the recorded (t, e) with the matrix the same object "
        "reports at t.",
        NOTE, "DESIGN.md 5 (C06)"),
    "C07": (TECH,
        "TLC checks the trapezoid technique against the Mann-Whitney statistic (all ties) and the "
        "exact step area (no cross-class ties) with additivity, bound, y-complement, x-mirror, axis "
        "exchange; Scores.auc is called for every window of a cut set on every object and TLC "
        "validates the recorded rationals.",
        NOTE, "DESIGN.md 5 (C07)"),
    "C10": ("TLA+ state machine of the whole API (TLC exhaustive for short histories + -simulate) + "
            "call-by-call replay + TLC trace validation",
        "System.tla models a store of objects with constructor and query actions; TLC checks that queries "
        "leave the store unchanged (action properties) and generates call histories with argument shapes "
        "() .. (1,2,2) incl. size-0 axes; each history is replayed on one real object, recording after "
        "EVERY call the projected object state and the caller's array, the scalar call per element, the "
        "alias and a later repetition; TLC judges shape rule, elementwise agreement, non-mutation and "
        "repeatability.",
        NOTE + " Histories are sampled by TLC's seeded simulator.", "DESIGN.md 5 (C10)"),
    "C11": ("TLA+ model with one action per RNG call (TLC exhaustive) + scripted-RNG replay of every "
            "model run + TLC trace validation of seeded runs",
        "Every RNG outcome of every sampling mode is explored by TLC on small sources; every finished "
        "model run is replayed into the real code with numpy's global RNG functions scripted to TLC's "
        "outcomes; seeded runs (all modes, smoothing, above the single-pass switch, histories of M "
        "samples) are recorded through the same shim and validated by TLC: per-sample well-formedness "
        "and an 8-sigma unbiasedness test decide, draw-by-draw conformance is reported as drift.",
        NOTE + " Distributional claims rest on the structural model plus the aggregate test.",
        "DESIGN.md 5 (C11)"),
    "C12": ("TLA+ model (object machine + sampling machine, TLC exhaustive) + scripted-RNG replay + "
            "simulated behaviours + TLC trace validation",
        "TLC checks that labels stay attached through construction, swap and sampling and that "
        "groups partition the data; every finished sampling run is replayed with a scripted RNG, "
        "simulated interleavings of swap/__getitem__/group_cm are replayed on one object, random "
        "labelled sets are sampled with seeds; TLC judges the recorded arrays, per-group matrices, "
        "group metrics and samples.",
        NOTE, "DESIGN.md 5 (C12)"),
    "C13": (TECH,
        "TLC checks the documented quantile/BC/BCa formulas (exact rationals, fixed point with "
        "tabulated Phi/Phi^-1/sqrt) for ordering, range, nesting, NaN/order invariance and affine "
        "equivariance; utils.bootstrap_ci is run on every replicate vector (NaNs, int/float, "
        "variants) and TLC compares the recorded limits with the formulas.",
        NOTE + " bc/bca limits are decided to 2e-4 x replicate range.", "DESIGN.md 5 (C13)"),
    "C14": ("TLA+ program-counter model of the replicate loop (TLC exhaustive + -simulate) + replay "
            "of simulated behaviours + TLC trace validation",
        "TLC explores the loop machine (Start/Probe/Sample/Eval/Estimate/Assemble, histories of two "
        "calls on one object); simulated behaviours are replayed with a scripted custom sampler; "
        "built-in samplers are observed through a subclass under fixed seeds; TLC judges that the "
        "rows are the metric of exactly the produced samples and the interval is the documented "
        "formula on them.",
        NOTE, "DESIGN.md 5 (C14)"),
    "C15": (TECH,
        "TLC checks the as-coded support-threshold selection of roc() (monotone x-axis metric, "
        "containment of supplied points, point counts) for every small object x argument combination "
        "x x_axis; roc() is called with the same combinations, the matrix the same object reports at "
        "every returned threshold is recorded and TLC validates rates, order, containment, counts, views.",
        NOTE, "DESIGN.md 5 (C15)"),
    "C16": (TECH,
        "TLC checks the closed form of roc_with_ci under an identity sampler (rule of three exactly at "
        "rates 0/1, envelope of covering rectangles); roc_with_ci (identity and seeded built-in "
        "samplers) and the three experimental band functions are run on every small object x argument "
        "combination and TLC validates well-formedness and the closed form. One known finding "
        "(fixed_width_band_ci on two-point supports) is reported as KNOWN-FINDING.",
        NOTE + " alpha^(1/n) tabulated (1e-6).", "DESIGN.md 5 (C16)"),
    "C17": (TECH,
        "TLC checks on every small sampled curve x target that the as-coded inversion returns true "
        "solutions (strictly increasing, in range, interpolant = target, minimal fallback); "
        "invert_pl_function and threshold_at_metric (points None/int/array, name/callable) are run and "
        "TLC validates the recorded solutions.",
        NOTE, "DESIGN.md 5 (C17)"),
    "C18": (TECH,
        "TLC checks the table of group metrics and its normalisations on frames growing row by row; "
        "showbias is called on every frame of the model and on random frames (group values with and "
        "without '_', 1-2 columns, metrics, thresholds, normalisations, bootstrap modes); TLC validates "
        "labels, entries and intervals. Two known findings (underscore keys, by_min + bootstrap) are "
        "reported as KNOWN-FINDING, each tied to its call-site condition.",
        NOTE, "DESIGN.md 5 (C18)"),
    "C19": (TECH,
        "TLC checks construction over a value domain straddling [0,1] (ValueError iff outside) and the "
        "refinement mapping to Scores; every argument tuple is given to FraudScores and every query is "
        "run on it and on the mapped Scores object; TLC validates equality and the exception rule.",
        NOTE, "DESIGN.md 5 (C19)"),
    "C20": (TECH,
        "TLC checks the exact model of the deterministic counts and of the validity of the correlated "
        "joint distribution (decided by squaring); the dataset classes are run on the whole "
        "(p1, p2, rho, n) grid and on normal models (z grid, round trips to 1e-12, roc, from_metrics, "
        "sample) and TLC validates counts exactly and analytic values against a tabulated Phi.",
        NOTE + " The analytic half is a fixed-point check (1e-6), see DESIGN.md 10.", "DESIGN.md 5 (C20)"),
}

NOT_YET = "check not built yet in this round (see DESIGN.md section 5 for the planned TLA+ model)"


def main():
    props = [json.loads(l)["id"] for l in open(os.path.join(HERE, "properties.jsonl"))]
    checks = []
    for pid in props:
        if pid not in CHECKS:
            continue
        tech, text, note, ref = CHECKS[pid]
        checks.append({
            "property_id": pid,
            "quick_cmd": f"./vcheck {pid} --tier quick",
            "thorough_cmd": f"./vcheck {pid} --tier thorough",
            "evidence_file": f"/verif/evidence/{pid}.json",
            "replay_cmd_template": f"./vcheck {pid} --replay {{path}}",
            "engine": "tlc",
            "level_claimed": {"category": "model_checking", "text": text, "design_ref": ref},
            "level_note": note,
            "technique": tech,
        })
    man = {
        "version": 1,
        "setup_cmd": "./setup.sh",
        "hooks": {
            "guard": "SCORE_ANALYSIS_VERIF",
            "enable": "no source hooks: the harness instruments the library's public extension "
                      "points (custom sampler, metric callables, subclass dispatch, np.random) from "
                      "outside; checks import /repo's working tree via PYTHONPATH (VERIF_REPO)",
            "baseline_off_cmd": "cd /repo && /venv/bin/python -m pytest -ra -q -p no:cacheprovider "
                                "--timeout=900 --continue-on-collection-errors",
            "source_commits": [],
            "add_only": True,
        },
        "engines": [{
            "name": "tlc", "path": "/verif/vcheck",
            "serves_properties": [c["property_id"] for c in checks],
            "kind_free_text": "TLA+ specification (spec/*.tla) model-checked by TLC; TLC-enumerated "
                              "cases/behaviours replayed into score_analysis; recorded traces "
                              "validated by TLC trace specifications (spec/Trace_*.tla)",
        }],
        "checks": checks,
        "not_applicable": [{"property_id": p, "reason": NOT_YET} for p in props if p not in CHECKS],
        "notes": "All verdicts come from TLC evaluating the trace specification on values recorded "
                 "from the implementation; see DESIGN.md.",
    }
    json.dump(man, open(os.path.join(HERE, "MANIFEST.json"), "w"), indent=1)
    print("wrote MANIFEST.json with", len(checks), "checks")


if __name__ == "__main__":
    main()
