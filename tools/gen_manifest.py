#!/usr/bin/env python3
"""Regenerates /verif/MANIFEST.json from the table below (one source of truth)."""
import json
import os

HERE = os.path.dirname(os.path.dirname(os.path.abspath(__file__)))

# property -> (technique, level text, level note, design ref)
TECH = "TLA+ bounded model (TLC exhaustive) + spec->code replay + TLC trace validation"
NOTE = ("Exhaustive only within the model constants (small-scope hypothesis); float behaviour is "
        "exercised through the concretisation family (identity/affine/int/float32/random maps, ulp "
        "neighbours), not proved; trusts TLC, the Python driver's projection of results to "
        "integers/small rationals, and NumPy's nextafter.")
CHECKS = {
    "C01": (TECH,
        "TLC exhaustively checks the bounded Scores model (constructor in any argument order, "
        "is_sorted fast path, swap; binary-search technique = documented counting rule, totals, "
        "pointwise sum at every threshold position); every argument tuple TLC enumerated is then "
        "replayed into the real Scores/from_labels/swap/cm/rate/pointwise_cm code under several "
        "float concretisations (on-score, one-ulp, +-inf thresholds), objects the library itself "
        "produces (bootstrap samples in every mode) are adopted as well, and the recorded trace is "
        "validated by TLC against the trace specification, whose oracle is CountCM.",
        NOTE, "DESIGN.md 5 (C01)"),
    "C02": (TECH,
        "TLC checks the exact-rational model of threshold setting (Rescale . Normalise . Invert) "
        "for round trip within one sample, coherence of lower/higher/linear, convexity and "
        "monotonicity over every object x metric x method x target of the bounded model; the same "
        "objects and target grids are replayed into the real code and TLC judges the recorded "
        "thresholds together with the counts the same object reports at and around them.",
        NOTE, "DESIGN.md 5 (C02)"),
    "C03": (TECH,
        "Same model and judge as C02 (invariant InvExtreme / clause C03.extreme for all three "
        "methods) plus an independent trace over easy-sample counts up to 12, where the float "
        "rescaling of the target depends on the exact (N, easy) pair.",
        NOTE, "DESIGN.md 5 (C03)"),
    "C08": (TECH,
        "TLC checks swap / negate relations as action properties of the bounded model; the driver "
        "probes every object, its swap(), its negated image and a second affine concretisation, "
        "and TLC validates the relations between the RECORDED probes (matrices, rates, linear "
        "thresholds, EER, AUC).",
        NOTE, "DESIGN.md 5 (C08)"),
    "C09": (TECH,
        "TLC checks the Materialise relation (same matrices inside the materialised range, same "
        "linear thresholds within the scored range) on the bounded model; every object is built "
        "for real both with declared easy samples and with those samples materialised, and TLC "
        "validates the relation between the recorded probes incl. full and partial AUC.",
        NOTE, "DESIGN.md 5 (C09)"),
}

NOT_YET = "check not built yet in this round (see DESIGN.md section 5 for the planned TLA+ model)"


def main():
    props = [json.loads(l)["id"] for l in open(os.path.join(HERE, "properties.jsonl"))]
    checks = []
    for pid in props:
        if pid not in CHECKS:
            continue
        tech, text, note, ref = CHECKS[pid]
        checks.append({
            "property_id": pid,
            "quick_cmd": f"./vcheck {pid} --tier quick",
            "thorough_cmd": f"./vcheck {pid} --tier thorough",
            "evidence_file": f"/verif/evidence/{pid}.json",
            "replay_cmd_template": f"./vcheck {pid} --replay {{path}}",
            "engine": "tlc",
            "level_claimed": {"category": "model_checking", "text": text, "design_ref": ref},
            "level_note": note,
            "technique": tech,
        })
    man = {
        "version": 1,
        "setup_cmd": "./setup.sh",
        "hooks": {
            "guard": "SCORE_ANALYSIS_VERIF",
            "enable": "no source hooks: the harness instruments the library's public extension "
                      "points (custom sampler, metric callables, subclass dispatch, np.random) from "
                      "outside; checks import /repo's working tree via PYTHONPATH (VERIF_REPO)",
            "baseline_off_cmd": "cd /repo && /venv/bin/python -m pytest -ra -q -p no:cacheprovider "
                                "--timeout=900 --continue-on-collection-errors",
            "source_commits": [],
            "add_only": True,
        },
        "engines": [{
            "name": "tlc", "path": "/verif/vcheck",
            "serves_properties": [c["property_id"] for c in checks],
            "kind_free_text": "TLA+ specification (spec/*.tla) model-checked by TLC; TLC-enumerated "
                              "cases/behaviours replayed into score_analysis; recorded traces "
                              "validated by TLC trace specifications (spec/Trace_*.tla)",
        }],
        "checks": checks,
        "not_applicable": [{"property_id": p, "reason": NOT_YET} for p in props if p not in CHECKS],
        "notes": "All verdicts come from TLC evaluating the trace specification on values recorded "
                 "from the implementation; see DESIGN.md.",
    }
    json.dump(man, open(os.path.join(HERE, "MANIFEST.json"), "w"), indent=1)
    print("wrote MANIFEST.json with", len(checks), "checks")


if __name__ == "__main__":
    main()
