#!/usr/bin/env python3
"""Regenerates /verif/MANIFEST.json from the table below (one source of truth)."""
import json
import os

HERE = os.path.dirname(os.path.dirname(os.path.abspath(__file__)))

# property -> (technique, level text, level note, design ref)
CHECKS = {
    "C01": (
        "TLA+ bounded model (TLC exhaustive) + spec->code replay + TLC trace validation",
        "TLC exhaustively checks the bounded Scores model (constructor in any argument order, "
        "is_sorted fast path, swap; binary-search technique = documented counting rule, totals, "
        "pointwise sum at every threshold position); every argument tuple TLC enumerated is then "
        "replayed into the real Scores/from_labels/swap/cm/rate/pointwise_cm code under several "
        "float concretisations (on-score, one-ulp, +-inf thresholds) and the recorded trace is "
        "validated by TLC against the trace specification, whose oracle is CountCM.",
        "Exhaustive only within the model constants (small-scope hypothesis); float behaviour is "
        "exercised through the concretisation family, not proved; trusts TLC and the Python driver's "
        "projection of integer matrices.",
        "DESIGN.md 5 (C01)"),
}

NOT_YET = "check not built yet in this round (see DESIGN.md section 5 for the planned TLA+ model)"


def main():
    props = [json.loads(l)["id"] for l in open(os.path.join(HERE, "properties.jsonl"))]
    checks = []
    for pid in props:
        if pid not in CHECKS:
            continue
        tech, text, note, ref = CHECKS[pid]
        checks.append({
            "property_id": pid,
            "quick_cmd": f"./vcheck {pid} --tier quick",
            "thorough_cmd": f"./vcheck {pid} --tier thorough",
            "evidence_file": f"/verif/evidence/{pid}.json",
            "replay_cmd_template": f"./vcheck {pid} --replay {{path}}",
            "engine": "tlc",
            "level_claimed": {"category": "model_checking", "text": text, "design_ref": ref},
            "level_note": note,
            "technique": tech,
        })
    man = {
        "version": 1,
        "setup_cmd": "./setup.sh",
        "hooks": {
            "guard": "SCORE_ANALYSIS_VERIF",
            "enable": "no source hooks: the harness instruments the library's public extension "
                      "points (custom sampler, metric callables, subclass dispatch, np.random) from "
                      "outside; checks import /repo's working tree via PYTHONPATH (VERIF_REPO)",
            "baseline_off_cmd": "cd /repo && /venv/bin/python -m pytest -ra -q -p no:cacheprovider "
                                "--timeout=900 --continue-on-collection-errors",
            "source_commits": [],
            "add_only": True,
        },
        "engines": [{
            "name": "tlc", "path": "/verif/vcheck",
            "serves_properties": [c["property_id"] for c in checks],
            "kind_free_text": "TLA+ specification (spec/*.tla) model-checked by TLC; TLC-enumerated "
                              "cases/behaviours replayed into score_analysis; recorded traces "
                              "validated by TLC trace specifications (spec/Trace_*.tla)",
        }],
        "checks": checks,
        "not_applicable": [{"property_id": p, "reason": NOT_YET} for p in props if p not in CHECKS],
        "notes": "All verdicts come from TLC evaluating the trace specification on values recorded "
                 "from the implementation; see DESIGN.md.",
    }
    json.dump(man, open(os.path.join(HERE, "MANIFEST.json"), "w"), indent=1)
    print("wrote MANIFEST.json with", len(checks), "checks")


if __name__ == "__main__":
    main()
