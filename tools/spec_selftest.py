#!/venv/bin/python -B
"""Self-test of the machinery (not a manifest check).

(a) SPEC MUTANTS: each entry edits one operator of the specification in a scratch
    copy of spec/ and re-runs the bounded model: TLC must report a violated invariant /
    property.  This shows that the model-level invariants are not vacuous.
(b) BINDING: a recorded trace is corrupted in one field -> the judge reports a failed
    clause; one event is dropped from a behaviour / the trace is truncated mid-way ->
    the judge refuses it (machinery error) or reports the state mismatch.
"""
import json
import os
import shutil
import subprocess
import sys
import tempfile

HERE = os.path.dirname(os.path.dirname(os.path.abspath(__file__)))
sys.path.insert(0, HERE)
from harness import core  # noqa: E402
from harness.checks import c01, c02, c06, c07, c10, c11, c12, c13, c14  # noqa: E402

JAVA = ["java", "-XX:+UseParallelGC", "-Xmx6g", "-cp", core.JAVA_CP, "tlc2.TLC"]

# (name, module to run, cfg text, file to edit, old, new)
MUTANTS = [
    ("CodedCM: wrong searchsorted side for (pos,neg)", "MC_C01", c01.MC_CFG.format(**c01.TIERS["quick"]),
     "ScoresObj.tla", 'IF o.sc = "pos" THEN (IF o.ec = "pos" THEN "left" ELSE "right")',
     'IF o.sc = "pos" THEN (IF o.ec = "pos" THEN "left" ELSE "left")'),
    ("Threshold: method reversal for decreasing metrics deleted", "MC_C02", c02.MC_CFG.format(**c02.TIERS["quick"]),
     "Threshold.tla", "me1 == IF Increasing(m) THEN method ELSE RevMethod(method)", "me1 == method"),
    ("Threshold: special cases decided after the 1/N shift (defect F1a)", "MC_C02",
     c02.MC_CFG.format(**c02.TIERS["quick"]), "Threshold.tla",
     "  IN IF RLe(t, RZero) THEN Below\n     ELSE IF RLe(ROne, t) THEN Above",
     "  IN IF RLe(ts, RZero) THEN Below\n     ELSE IF RLe(ROne, ts) THEN Above"),
    ("EER: cap by the LARGER hard-sample fraction", "MC_C06", c06.MC_CFG.format(**c06.TIERS["quick"]),
     "EER.tla", "cap == RMin(hp, hn)", "cap == RMax(hp, hn)"),
    ("EER: perfect-separation shortcut with >= (defect F2)", "MC_C06", c06.MC_CFG.format(**c06.TIERS["quick"]),
     "EER.tla", 'Separated(o) == IF o.sc = "pos" THEN o.pos[1] > o.neg[Len(o.neg)]',
     'Separated(o) == IF o.sc = "pos" THEN o.pos[1] >= o.neg[Len(o.neg)]'),
    ("AUC: right cut with side=left", "MC_C07", c07.MC_CFG.format(**c07.TIERS["quick"]),
     "AUC.tla", "r0  == Cardinality({i \\in 1..n : RLe(x[i], upper)})", "r0  == Cardinality({i \\in 1..n : RLt(x[i], upper)})"),
    ("Bootstrap: single-pass without the at-least-one correction (defect F3)", "MC_C11",
     c11.MC_CFG.format(**c11.TIERS["quick"]), "Bootstrap.tla",
     "mp == IF needp THEN SetAt(mp0, draws[off + 3]) ELSE mp0", "mp == mp0"),
    # (dropping the factor 2 in BootCI is NOT rejected at model level: ordering / range / nesting hold for
    #  any monotone re-parametrisation; C13 is "agreement with the documented formula", decided by the judge)
    ("BootLoop: every row evaluated on the FIRST sample", "MC_C14", c14.MC_CFG.format(MaxN=3),
     "BootLoop.tla", "rows' = Append(rows, MetricOf(produced[j + 1], thr))", "rows' = Append(rows, MetricOf(produced[1], thr))"),
    ("System: assigning easy counts to one object changes every object of the store", "MC_C10",
     c10.MC_CFG.format(MaxCalls=2), "System.tla",
     "  /\\ store' = [store EXCEPT ![h] = [@ EXCEPT !.ep = ep, !.en = en]]\n  /\\ UNCHANGED arr",
     "  /\\ store' = [k \\in DOMAIN store |-> [store[k] EXCEPT !.ep = ep, !.en = en]]\n  /\\ UNCHANGED arr"),
    ("GroupScores: neg labels not carried through the sort", "MC_C12", c12.MC_CFG.format(Inputs="InQuick", MaxSteps=2),
     "GroupScores.tla", "NewG(p, n, sc, ec) == GObj(SortPairs(p), SortPairs(n), sc, ec,",
     "NewG(p, n, sc, ec) == GObj(SortPairs(p), [i \\in DOMAIN n |-> <<SortPairs(n)[i][1], n[i][2]>>], sc, ec,"),
]


def run_model(specdir, module, cfg, env):
    work = tempfile.mkdtemp(prefix="selftest_", dir=os.path.join(HERE, "work"))
    cfgp = os.path.join(work, "m.cfg")
    open(cfgp, "w").write(cfg)
    e = dict(os.environ)
    e.update(env)
    p = subprocess.run(JAVA + ["-workers", "16", "-metadir", os.path.join(work, "meta"), "-noGenerateSpecTE",
                               "-config", cfgp, os.path.join(specdir, module + ".tla")],
                       cwd=work, env=e, capture_output=True, text=True, timeout=3600)
    shutil.rmtree(work, ignore_errors=True)
    return p.stdout + p.stderr


def spec_mutants():
    ok = True
    os.makedirs(os.path.join(HERE, "work"), exist_ok=True)
    for name, module, cfg, fname, old, new in MUTANTS:
        d = tempfile.mkdtemp(prefix="specmut_", dir=os.path.join(HERE, "work"))
        for f in os.listdir(os.path.join(HERE, "spec")):
            shutil.copy(os.path.join(HERE, "spec", f), d)
        s = open(os.path.join(d, fname)).read()
        if s.count(old) != 1:
            print(f"SELFTEST-ERROR {name}: pattern not found exactly once in {fname}")
            ok = False
            continue
        open(os.path.join(d, fname), "w").write(s.replace(old, new))
        env = {"CASES_FILE": os.path.join(d, "cases.json"), "TABLES_FILE": os.path.join(HERE, "gen", "tables.json")}
        out = run_model(d, module, cfg, env)
        shutil.rmtree(d, ignore_errors=True)
        viol = [l for l in out.splitlines() if "is violated" in l]
        if viol:
            print(f"spec mutant rejected by TLC  [{name}]: {viol[0].strip()}")
        elif "No error has been found" in out:
            print(f"SELFTEST-FAIL {name}: the mutated model still satisfies every invariant")
            ok = False
        else:
            print(f"SELFTEST-ERROR {name}: TLC did not finish\n" + "\n".join(out.splitlines()[-8:]))
            ok = False
    return ok


def binding():
    core.import_repo()
    from harness import gamma
    ok = True
    a = {"p": [2, 0, 1], "n": [1, 1], "ep": 2, "en": 1, "sc": "neg", "ec": "pos", "sorted": False}
    ids = iter(range(1, 10**6))
    evs = c01.events_for_case(a, 0, gamma.ident(), 3, ids)
    work = core.VERIF / "work" / "selftest_binding"
    fails, _, _ = core.judge("Trace_C01", evs, work, "ok")
    print("binding: untouched trace ->", "accepted" if not fails else f"REJECTED {fails}")
    ok = ok and not fails
    # corrupt one recorded field
    bad = json.loads(json.dumps(evs))
    cm = [e for e in bad if e["op"] == "cm"][0]
    cm["out"][3][0] += 1
    fails, _, _ = core.judge("Trace_C01", bad, work, "bad")
    print("binding: one matrix cell corrupted ->", [f[2] for f in fails] or "ACCEPTED (selftest fails)")
    ok = ok and bool(fails)
    # drop the constructor event: the judge cannot consume the trace
    try:
        core.judge("Trace_C01", evs[1:], work, "drop")
        print("binding: constructor event dropped -> ACCEPTED (selftest fails)")
        ok = False
    except core.MachineryError as ex:
        print("binding: constructor event dropped -> trace refused:", str(ex).splitlines()[0][:100])
    shutil.rmtree(work, ignore_errors=True)
    return ok


if __name__ == "__main__":
    r1 = spec_mutants()
    r2 = binding()
    print("SELFTEST", "PASSED" if r1 and r2 else "FAILED")
    sys.exit(0 if r1 and r2 else 1)
