#!/usr/bin/env python3
"""Writes seeded/INDEX.md from the meta.json files."""
import glob, json, os
rows = []
for d in sorted(glob.glob('/verif/seeded/*/')):
    m = json.load(open(d + 'meta.json'))
    c = m.get('confirmed', {})
    det = m.get('detected_by', [])
    clauses = []
    for p, r in c.get('checks', {}).items():
        for l in r.get('lines', []):
            if l.strip().startswith('VIOLATION'):
                clauses.append(l.split('replays/')[-1].split('-')[1].replace('_', '.', 1) if 'replays/' in l else l)
    status = ','.join(det) or 'MISSED'
    if not det and c.get('demo_rc_with_change') == 0:
        status = 'NOT A VIOLATION ANY MORE (demo passes with the change)'
    if m.get('note'):
        status += ' - ' + m['note']
    rows.append((os.path.basename(d.rstrip('/')), m.get('property', ''), c.get('tests', ''), c.get('demo_rc_with_change'),
                 c.get('demo_rc_on_repo'), status, '; '.join(sorted(set(clauses)))[:120],
                 str(m.get('what_it_needs_to_manifest', ''))[:160].replace('\n', ' ').replace('|', '/')))
with open('/verif/seeded/INDEX.md', 'w') as f:
    f.write('# Seeded changes\n\nEach directory holds `patch.diff` (apply with `git -C <tree> apply`), `demo.py` (exit 0 on the '
            'unchanged tree, non-zero with the change) and `meta.json` (what it needs to manifest; what was run: '
            'repository tests, demo on both trees, the checks against a scratch worktree).\n\n'
            '| id | property | repo tests with change | demo rc (changed / unchanged) | caught by | first failing clauses | needs |\n|---|---|---|---|---|---|---|\n')
    for r in rows:
        f.write(f'| {r[0]} | {r[1]} | {r[2]} | {r[3]} / {r[4]} | {r[5]} | {r[6]} | {r[7]} |\n')
print(len(rows), 'entries;', sum(1 for r in rows if r[5].startswith('MISSED')), 'missed')
