#!/bin/sh
# tools/seedall3.sh Cxx "<checks>" : round-3 seeds (/tmp/sa3), kept as Cxx-5 / Cxx-6
id=$1; shift
for k in 1 2; do
  if [ -f /tmp/sa3/$id.out/patch$k.diff ]; then
    n=$((k+4))
    echo "=== $id seed $n"
    python3 /verif/tools/seedtest.py /tmp/sa3/$id.out/patch$k.diff /tmp/sa3/$id.out/demo$k.py "$@" --tests --keep=$id-$n --meta=/tmp/sa3/$id.out/meta$k.json 2>&1 | cut -c1-300
  fi
done
