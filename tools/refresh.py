#!/usr/bin/env python3
"""tools/refresh.py seeded|benign [regex] : re-run the kept changes against the current checks (same checks as recorded),
updating their meta.json; prints one line per change."""
import glob, json, os, re, subprocess, sys
root = sys.argv[1]
rx = re.compile(sys.argv[2]) if len(sys.argv) > 2 else None
for d in sorted(glob.glob(f'/verif/{root}/*/')):
    name = os.path.basename(d.rstrip('/'))
    if rx and not rx.search(name):
        continue
    m = json.load(open(d + 'meta.json'))
    checks = list(m.get('confirmed', {}).get('checks', {}).keys()) or [m.get('property', name.split('-')[0])]
    demo = d + ('demo.py' if root == 'seeded' else 'check.py')
    cmd = ['python3', '/verif/tools/seedtest.py', d + 'patch.diff', demo if os.path.exists(demo) else '-'] + checks + \
          ['--tests', f'--keep={name}', f'--meta={d}meta.json'] + ([f'--root={root}'] if root != 'seeded' else [])
    r = subprocess.run(cmd, capture_output=True, text=True)
    lines = [l for l in r.stdout.splitlines() if l.startswith(('check', 'tests', 'demo with', 'PATCH'))]
    print(name, '|', ' | '.join(l[:60] for l in lines), flush=True)
