#!/bin/sh
# tools/seedall5.sh Cxx "<checks>" : round-5 seeds (/tmp/sa5), kept as Cxx-9 / Cxx-10
id=$1; shift
for k in 1 2; do
  if [ -f /tmp/sa5/$id.out/patch$k.diff ]; then
    n=$((k+8))
    echo "=== $id seed $n"
    python3 /verif/tools/seedtest.py /tmp/sa5/$id.out/patch$k.diff /tmp/sa5/$id.out/demo$k.py "$@" --tests --keep=$id-$n --meta=/tmp/sa5/$id.out/meta$k.json 2>&1 | cut -c1-300
  fi
done
