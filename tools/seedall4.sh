#!/bin/sh
# tools/seedall4.sh Cxx "<checks>" : round-4 seeds (/tmp/sa4), kept as Cxx-7 / Cxx-8
id=$1; shift
for k in 1 2; do
  if [ -f /tmp/sa4/$id.out/patch$k.diff ]; then
    n=$((k+6))
    echo "=== $id seed $n"
    python3 /verif/tools/seedtest.py /tmp/sa4/$id.out/patch$k.diff /tmp/sa4/$id.out/demo$k.py "$@" --tests --keep=$id-$n --meta=/tmp/sa4/$id.out/meta$k.json 2>&1 | cut -c1-300
  fi
done
