#!/bin/sh
# tools/benign.sh Cxx "<checks>" : property-preserving changes (/tmp/sb/Cxx.out/patch{1,2,3}.diff) run against the
# checks; kept under /verif/benign/Cxx-k.  The check program (tests the property itself) must pass with the
# change ("demo with change: rc 0") and every vcheck must print OK (rc=0).
id=$1; shift
for k in 1 2 3; do
  if [ -f /tmp/sb/$id.out/patch$k.diff ]; then
    echo "=== $id benign $k"
    python3 /verif/tools/seedtest.py /tmp/sb/$id.out/patch$k.diff /tmp/sb/$id.out/check$k.py "$@" --tests --root=benign --keep=$id-$k --meta=/tmp/sb/$id.out/meta$k.json 2>&1 | cut -c1-300
  fi
done
