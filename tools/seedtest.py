#!/usr/bin/env python3
"""tools/seedtest.py <patch.diff> <demo.py|-> <Cxx> [<Cyy> ...] [--tests] [--tier quick]

Applies a seeded change to a scratch worktree of /repo (outside /repo and
/verif), confirms the demonstration fails with it (and optionally that the
repository's own tests still pass), runs the named checks against the scratch
tree (VERIF_REPO) and removes the worktree."""
import os
import subprocess
import sys
import tempfile


def sh(cmd, **kw):
    return subprocess.run(cmd, shell=True, text=True, capture_output=True, **kw)


def main():
    args = [a for a in sys.argv[1:] if not a.startswith("--")]
    flags = [a for a in sys.argv[1:] if a.startswith("--")]
    patch, demo, props = args[0], args[1], args[2:]
    tier = "quick"
    for f in flags:
        if f.startswith("--tier="):
            tier = f.split("=")[1]
    wt = tempfile.mkdtemp(prefix="wt_seed_", dir="/tmp")
    os.rmdir(wt)
    r = sh(f"git -C /repo worktree add -q --detach {wt} HEAD")
    assert r.returncode == 0, r.stderr
    try:
        r = sh(f"git -C {wt} apply {os.path.abspath(patch)}")
        if r.returncode != 0:
            print("PATCH DOES NOT APPLY", r.stderr)
            return 3
        if "--tests" in flags:
            r = sh(f"cd {wt} && /venv/bin/python -m pytest -q -p no:cacheprovider -x 2>&1 | tail -1")
            tests_line = r.stdout.strip()
            print("tests:", tests_line)
        if demo != "-":
            r = sh(f"cd /tmp && PYTHONPATH={wt} /venv/bin/python -B {os.path.abspath(demo)}")
            print("demo with change: rc", r.returncode, (r.stdout + r.stderr).strip().splitlines()[-1:] )
            r0 = sh(f"cd /tmp && PYTHONPATH=/repo /venv/bin/python -B {os.path.abspath(demo)}")
            print("demo on /repo:   rc", r0.returncode)
        rc_all = {}
        record = {"patch": patch, "tests": None, "demo_rc_with_change": None,
                  "demo_rc_on_repo": None, "checks": {}}
        if "--tests" in flags:
            record["tests"] = locals().get("tests_line")
        if demo != "-":
            record["demo_rc_with_change"] = r.returncode
            record["demo_rc_on_repo"] = r0.returncode
        for p in props:
            r = sh(f"cd /verif && VERIF_REPO={wt} VERIF_NO_EVIDENCE=1 ./vcheck {p} --tier {tier}")
            lines = [l for l in r.stdout.splitlines() if l.startswith(("VIOLATION", "OK", "KNOWN", "  clause"))]
            print(f"check {p}: rc={r.returncode}")
            for l in lines[:8]:
                print("   ", l[:300])
            if r.returncode == 2:
                print(r.stderr[-1500:])
            rc_all[p] = r.returncode
            record["checks"][p] = {"cmd": f"VERIF_REPO=<scratch worktree with patch> ./vcheck {p} --tier {tier}",
                                   "rc": r.returncode, "lines": [l[:200] for l in lines[:6]]}
        keep = [f.split("=", 1)[1] for f in flags if f.startswith("--keep=")]
        if keep:
            import json, shutil
            root = [f.split("=", 1)[1] for f in flags if f.startswith("--root=")]
            d = os.path.join("/verif", root[0] if root else "seeded", keep[0])
            os.makedirs(d, exist_ok=True)
            if os.path.abspath(patch) != os.path.abspath(os.path.join(d, "patch.diff")):
                shutil.copy(patch, os.path.join(d, "patch.diff"))
            dst_demo = os.path.join(d, "demo.py" if not root else "check.py")
            if demo != "-" and os.path.abspath(demo) != os.path.abspath(dst_demo):
                shutil.copy(demo, dst_demo)
            meta = {}
            mp = [f.split("=", 1)[1] for f in flags if f.startswith("--meta=")]
            if mp and os.path.exists(mp[0]):
                meta = json.load(open(mp[0]))
            meta["confirmed"] = record
            meta["detected_by"] = [p for p, c in rc_all.items() if c == 1]
            json.dump(meta, open(os.path.join(d, "meta.json"), "w"), indent=1)
        return 0
    finally:
        sh(f"git -C /repo worktree remove --force {wt}")


if __name__ == "__main__":
    sys.exit(main())
