#!/usr/bin/env python3
"""Writes benign/INDEX.md from the meta.json files of the property-preserving changes."""
import glob, json, os
rows = []
for d in sorted(glob.glob('/verif/benign/*/')):
    m = json.load(open(d + 'meta.json'))
    c = m.get('confirmed', {})
    alarms = [p for p, r in c.get('checks', {}).items() if r.get('rc') != 0]
    status = 'no alarm' if not alarms else 'ALARM: ' + ','.join(alarms)
    if m.get('note'):
        status += ' - ' + m['note']
    rows.append((os.path.basename(d.rstrip('/')), m.get('property', ''), c.get('tests', ''), c.get('demo_rc_with_change'),
                 ' '.join(c.get('checks', {}).keys()), status,
                 str(m.get('description', ''))[:200].replace('\n', ' ').replace('|', '/')))
with open('/verif/benign/INDEX.md', 'w') as f:
    f.write('# Property-preserving changes\n\nRe-implementations written by sub-agents that saw only one property text: '
            '`patch.diff`, `check.py` (tests the property itself through the public API; passes on both trees) and `meta.json`. '
            'Expected: every check prints OK.\n\n'
            '| id | property | repo tests with change | property check rc with change | checks run | result | change |\n|---|---|---|---|---|---|---|\n')
    for r in rows:
        f.write(f'| {r[0]} | {r[1]} | {r[2]} | {r[3]} | {r[4]} | {r[5]} | {r[6]} |\n')
print(len(rows), 'entries;', sum(1 for r in rows if r[5].startswith('ALARM')), 'alarms')
