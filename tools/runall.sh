#!/bin/sh
# tools/runall.sh [quick|thorough] : run every registered check on /repo, one line per check
tier=${1:-quick}
cd "$(dirname "$0")/.."
for p in $(python3 -c "import json;print(' '.join(c['property_id'] for c in json.load(open('MANIFEST.json'))['checks']))") $2; do
  s=$(date +%s)
  out=$(./vcheck $p --tier $tier 2>&1)
  rc=$?
  echo "$p rc=$rc $(( $(date +%s) - s ))s :: $(echo "$out" | grep -E '^(OK|VIOLATION|KNOWN-FINDING|MACHINERY|MODEL-DRIFT)' | cut -c1-160 | tr '\n' '|')"
done
