#!/bin/sh
# tools/seedall2.sh Cxx "<checks>" : round-2 seeds (/tmp/sa2), kept as Cxx-3 / Cxx-4
id=$1; shift
for k in 1 2; do
  if [ -f /tmp/sa2/$id.out/patch$k.diff ]; then
    n=$((k+2))
    echo "=== $id seed $n"
    python3 /verif/tools/seedtest.py /tmp/sa2/$id.out/patch$k.diff /tmp/sa2/$id.out/demo$k.py "$@" --tests --keep=$id-$n --meta=/tmp/sa2/$id.out/meta$k.json 2>&1 | cut -c1-300
  fi
done
